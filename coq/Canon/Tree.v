(* Canon/Tree.v — the unpruned search tree of Canon/Model.v:
   every leaf is a permutation of the vertices ([leaves_perm], [canon_ref_perm]);
   the tree of a relabelled graph is the image of the tree ([leaves_sim]); the least key over
   the leaves, hence the canonical graph, does not depend on the labelling
   ([canon_graph_invariant]); therefore [canon_graph] is a complete isomorphism invariant
   wherever it is defined ([canon_ref_complete]). *)
From Coq Require Import List Arith Lia Permutation Bool.
From Mamba Require Import Canon.Perm Canon.Iso Canon.Model Canon.Refine.
Import ListNotations.

Lemma NoDup_app_r : forall (A : Type) (a b : list A), NoDup (a ++ b) -> NoDup b.
Proof. induction a as [|x a IH]; simpl; intros b H; [exact H|]. inversion H; subst. apply IH. assumption. Qed.

Lemma NoDup_app_l : forall (A : Type) (a b : list A), NoDup (a ++ b) -> NoDup a.
Proof.
  induction a as [|x a IH]; simpl; intros b H; [constructor|]. inversion H; subst. constructor.
  - intros Hx. apply H2. apply in_or_app. auto.
  - eapply IH. eassumption.
Qed.

(* ------------------------------------------------------------------ target / indiv *)

Lemma target_spec : forall P b c a, target P = Some (b, c, a) ->
  exists fl, P = b ++ (fl, c) :: a /\ 2 <= length c.
Proof.
  induction P as [|[fl0 c0] r IH]; simpl; intros b c a H; [discriminate|].
  destruct c0 as [|x [|y t]].
  - destruct (target r) as [[[b1 t1] a1]|] eqn:E; [|discriminate]. inversion H; subst.
    destruct (IH _ _ _ eq_refl) as [fl [E1 E2]]. exists fl. split; [simpl; rewrite E1; reflexivity|exact E2].
  - destruct (target r) as [[[b1 t1] a1]|] eqn:E; [|discriminate]. inversion H; subst.
    destruct (IH _ _ _ eq_refl) as [fl [E1 E2]]. exists fl. split; [simpl; rewrite E1; reflexivity|exact E2].
  - inversion H; subst. exists fl0. split; [reflexivity|simpl; lia].
Qed.

Lemma target_none : forall P, target P = None -> Forall (fun c => length (snd c) <= 1) P.
Proof.
  induction P as [|[fl0 c0] r IH]; simpl; intros H; [constructor|].
  destruct c0 as [|x [|y t]]; try discriminate;
    (destruct (target r) as [[[b1 t1] a1]|] eqn:E; [discriminate|]);
    constructor; simpl; auto.
Qed.

Lemma indiv_verts : forall b c a fl v, NoDup c -> In v c ->
  Permutation (verts (indiv b c a v)) (verts (b ++ (fl, c) :: a)).
Proof.
  intros b c a fl v Hnd Hin. unfold indiv. rewrite !verts_app, !verts_cons. simpl.
  apply Permutation_app_head.
  change (v :: filter (fun u => negb (u =? v)) c ++ verts a)
    with ((v :: filter (fun u => negb (u =? v)) c) ++ verts a).
  apply Permutation_app_tail.
  apply NoDup_Permutation.
  - constructor.
    + rewrite filter_In. intros [_ H]. rewrite Nat.eqb_refl in H. discriminate.
    + apply NoDup_filter. exact Hnd.
  - exact Hnd.
  - intros x. simpl. rewrite filter_In. split.
    + intros [H|[H _]]; [subst; exact Hin|exact H].
    + intros H. destruct (Nat.eq_dec v x) as [E|E]; [left; exact E|right].
      split; [exact H|]. apply negb_true_iff, Nat.eqb_neq. congruence.
Qed.

(* ------------------------------------------------------------------ leaves are permutations *)

Lemma leaves_perm : forall d g P p, NoDup (verts P) -> In (Some p) (leaves d g P) ->
  Permutation p (verts P).
Proof.
  induction d as [|d IH]; intros g P p Hnd Hin; simpl in Hin.
  - destruct (target P) as [[[b c] a]|]; simpl in Hin.
    + destruct Hin as [H|[]]. discriminate.
    + destruct Hin as [H|[]]. inversion H. apply Permutation_refl.
  - destruct (target P) as [[[b c] a]|] eqn:ET; simpl in Hin.
    + apply in_flat_map in Hin. destruct Hin as [v [Hv Hin]].
      destruct (target_spec _ _ _ _ ET) as [fl [EP _]]. subst P.
      assert (Hc : NoDup c).
      { rewrite verts_app, verts_cons in Hnd. simpl in Hnd.
        apply NoDup_app_r in Hnd. apply NoDup_app_l in Hnd. exact Hnd. }
      pose proof (indiv_verts b c a fl v Hc Hv) as HI.
      destruct (refine g (indiv b c a v)) as [Q|] eqn:ER.
      * pose proof (refine_verts _ _ _ ER) as HR.
        eapply Permutation_trans; [apply (IH g Q p)|].
        -- apply (Permutation_NoDup (Permutation_sym (Permutation_trans HR HI))). exact Hnd.
        -- exact Hin.
        -- eapply Permutation_trans; eassumption.
      * destruct Hin as [H|[]]. discriminate.
    + destruct Hin as [H|[]]. inversion H. apply Permutation_refl.
Qed.

Lemma init_part_verts : forall n, verts (init_part n) = seq 0 n.
Proof.
  intros [|n]; [reflexivity|]. unfold init_part. rewrite verts_cons.
  change (verts []) with (@nil nat). rewrite app_nil_r. reflexivity.
Qed.

Lemma all_some_In : forall (A : Type) (l : list (option A)) (r : list A) (x : A),
  all_some l = Some r -> In x r -> In (Some x) l.
Proof.
  induction l as [|[y|] l IH]; simpl; intros r x H Hx.
  - inversion H; subst. contradiction.
  - destruct (all_some l) as [r'|]; [|discriminate]. inversion H; subst.
    destruct Hx as [Hx|Hx]; [left; congruence|right; eapply IH; eauto].
  - discriminate.
Qed.

Lemma all_leaves_perm : forall g l p, all_leaves g = Some l -> In p l ->
  is_perm (length g) p = true.
Proof.
  intros g l p H Hp. unfold all_leaves in H.
  destruct (refine g (init_part (length g))) as [P|] eqn:ER; [|discriminate].
  pose proof (refine_verts _ _ _ ER) as HR. rewrite init_part_verts in HR.
  apply is_perm_Permutation. eapply Permutation_trans; [|exact HR].
  eapply leaves_perm.
  - apply (Permutation_NoDup (Permutation_sym HR)). apply seq_NoDup.
  - eapply all_some_In; eauto.
Qed.

Lemma best_In : forall g l p, In (best g p l) (p :: l).
Proof.
  intros g l. induction l as [|q r IH]; intros p; simpl; [auto|].
  destruct (lexleb (key g p) (key g q)).
  - destruct (IH p) as [H|H]; auto.
  - destruct (IH q) as [H|H]; auto.
Qed.

(* every leaf of the tree, in particular the chosen one, is a permutation of 0..n-1 *)
Theorem canon_ref_perm : forall g p, canon_ref g = Some p -> is_perm (length g) p = true.
Proof.
  intros g p H. unfold canon_ref in H.
  destruct (all_leaves g) as [[|q r]|] eqn:E; try discriminate.
  inversion H; subst. eapply all_leaves_perm; [exact E|]. apply best_In.
Qed.

(* ------------------------------------------------------------------ the tree of the image *)

Section TreeEquivariance.
  Variable f : nat -> nat.
  Variables g g' : graph.
  Variable V : list nat.
  Hypothesis compat : forall u v, In u V -> In v V -> adjb g' (f u) (f v) = adjb g u v.
  Hypothesis inj : forall u v, In u V -> In v V -> f u = f v -> u = v.

  Lemma target_sim : forall P P', sim f P P' ->
    orel (fun x y => sim f (fst (fst x)) (fst (fst y)) /\
                     Permutation (map f (snd (fst x))) (snd (fst y)) /\
                     sim f (snd x) (snd y)) (target P) (target P').
  Proof.
    intros P P' H. induction H as [|[fl c] [fl' c'] P P' [Hfl Hpc] HPP IH]; simpl; [exact I|].
    simpl in Hfl, Hpc. pose proof (Permutation_length Hpc) as HL. rewrite map_length in HL.
    destruct c as [|x [|y t]]; destruct c' as [|x' [|y' t']]; simpl in HL; try discriminate.
    - destruct (target P) as [[[b1 t1] a1]|]; destruct (target P') as [[[b2 t2] a2]|];
        simpl in IH; try contradiction; simpl; auto.
      destruct IH as [I1 [I2 I3]]. repeat split; auto. constructor; [split; assumption|exact I1].
    - destruct (target P) as [[[b1 t1] a1]|]; destruct (target P') as [[[b2 t2] a2]|];
        simpl in IH; try contradiction; simpl; auto.
      destruct IH as [I1 [I2 I3]]. repeat split; auto. constructor; [split; assumption|exact I1].
    - simpl. repeat split; auto. constructor.
  Qed.

  Lemma indiv_sim : forall b b' c c' a a' v, sim f b b' -> Permutation (map f c) c' -> sim f a a' ->
    incl c V -> In v c -> sim f (indiv b c a v) (indiv b' c' a' (f v)).
  Proof.
    intros b b' c c' a a' v Hb Hc Ha HcV Hv. unfold indiv, sim.
    apply Forall2_app; [exact Hb|]. constructor; [split; [reflexivity|apply Permutation_refl]|].
    constructor; [|exact Ha]. split; [reflexivity|]. simpl.
    apply filter_sim; [exact Hc|]. intros u Hu. f_equal.
    destruct (Nat.eqb_spec u v) as [E|E].
    - subst. apply Nat.eqb_refl.
    - apply Nat.eqb_neq. intros E'. apply E. apply inj; auto.
  Qed.

  Lemma discrete_sim : forall P P', sim f P P' -> Forall (fun c => length (snd c) <= 1) P ->
    verts P' = map f (verts P).
  Proof.
    intros P P' H. induction H as [|[fl c] [fl' c'] P P' [_ Hpc] _ IH]; intros HF; [reflexivity|].
    inversion HF; subst. simpl in *. rewrite !verts_cons, map_app. simpl. f_equal; [|apply IH; assumption].
    destruct c as [|x [|y t]]; simpl in *; try lia.
    - apply Permutation_nil in Hpc. exact Hpc.
    - apply Permutation_length_1_inv in Hpc. exact Hpc.
  Qed.

  Lemma leaves_sim : forall d P P', NoDup (verts P) -> incl (verts P) V -> sim f P P' ->
    Permutation (map (option_map (map f)) (leaves d g P)) (leaves d g' P').
  Proof.
    induction d as [|d IH]; intros P P' Hnd HV H; simpl;
      pose proof (target_sim P P' H) as HT;
      destruct (target P) as [[[b c] a]|] eqn:ET; destruct (target P') as [[[b' c'] a']|] eqn:ET';
      simpl in HT; try contradiction.
    - apply Permutation_refl.
    - simpl. rewrite (discrete_sim P P' H (target_none _ ET)). apply Permutation_refl.
    - destruct HT as [Hb [Hc Ha]].
      destruct (target_spec _ _ _ _ ET) as [fl [EP _]].
      assert (HcV : incl c V).
      { intros x Hx. apply HV. subst P. rewrite verts_app, verts_cons. simpl.
        apply in_or_app. right. apply in_or_app. left. exact Hx. }
      assert (Hcnd : NoDup c).
      { subst P. rewrite verts_app, verts_cons in Hnd. simpl in Hnd.
        apply NoDup_app_r in Hnd. apply NoDup_app_l in Hnd. exact Hnd. }
      rewrite map_flat_map.
      eapply Permutation_trans; [|apply Permutation_flat_map; exact Hc].
      rewrite flat_map_map. apply flat_map_perm_pointwise. intros v Hv.
      pose proof (indiv_sim b b' c c' a a' v Hb Hc Ha HcV Hv) as HI.
      pose proof (indiv_verts b c a fl v Hcnd Hv) as HIV. rewrite <- EP in HIV.
      assert (HIincl : incl (verts (indiv b c a v)) V).
      { intros x Hx. apply HV. apply (Permutation_in _ HIV). exact Hx. }
      pose proof (refine_sim f g g' V compat _ _ HIincl HI) as HR.
      destruct (refine g (indiv b c a v)) as [Q|] eqn:EQ;
        destruct (refine g' (indiv b' c' a' (f v))) as [Q'|] eqn:EQ'; simpl in HR; try contradiction.
      + pose proof (refine_verts _ _ _ EQ) as HQ. apply IH.
        * apply (Permutation_NoDup (Permutation_sym (Permutation_trans HQ HIV))). exact Hnd.
        * intros x Hx. apply HIincl. apply (Permutation_in _ HQ). exact Hx.
        * exact HR.
      + apply Permutation_refl.
    - simpl. rewrite (discrete_sim P P' H (target_none _ ET)). apply Permutation_refl.
  Qed.
End TreeEquivariance.

(* ------------------------------------------------------------------ keys *)

Lemma upper_map : forall (f : nat -> nat) (g g' : graph) p acc,
  (forall u v, In u (acc ++ p) -> In v (acc ++ p) -> adjb g' (f u) (f v) = adjb g u v) ->
  upper g' (map f acc) (map f p) = upper g acc p.
Proof.
  induction p as [|x r IH]; intros acc H; simpl; [reflexivity|].
  rewrite map_map. f_equal.
  - apply map_ext_in. intros u Hu. apply H; apply in_or_app; simpl; auto.
  - replace (map f acc ++ [f x]) with (map f (acc ++ [x])) by (rewrite map_app; reflexivity).
    apply IH. intros u v Hu Hv. rewrite <- app_assoc in Hu, Hv. simpl in Hu, Hv. apply H; assumption.
Qed.

Lemma relabel_map : forall (f : nat -> nat) (g g' : graph) p,
  (forall u v, In u p -> In v p -> adjb g' (f u) (f v) = adjb g u v) ->
  relabel g' (map f p) = relabel g p.
Proof.
  intros f g g' p H. unfold relabel. rewrite map_map. apply map_ext_in. intros u Hu.
  rewrite map_map. apply map_ext_in. intros v Hv. apply H; assumption.
Qed.

Lemma key_map : forall (f : nat -> nat) (g g' : graph) p,
  (forall u v, In u p -> In v p -> adjb g' (f u) (f v) = adjb g u v) ->
  key g' (map f p) = key g p.
Proof.
  intros f g g' p H. unfold key. rewrite (relabel_map f g g' p H). f_equal.
  apply (upper_map f g g' p []). exact H.
Qed.

Lemma upper_length : forall g g' p q acc acc', length acc = length acc' -> length p = length q ->
  length (upper g acc p) = length (upper g' acc' q).
Proof.
  induction p as [|x r IH]; intros [|y t] acc acc' Ha Hp; simpl in *; try discriminate; [reflexivity|].
  rewrite !app_length, !map_length. f_equal; [exact Ha|].
  apply IH; [rewrite !app_length; simpl; lia|lia].
Qed.

Lemma app_eq_len : forall (A : Type) (a a' b b' : list A), length a = length a' ->
  a ++ b = a' ++ b' -> a = a' /\ b = b'.
Proof.
  induction a as [|x a IH]; intros [|y a'] b b' HL H; simpl in *; try discriminate; [auto|].
  inversion H; subst. destruct (IH a' b b') as [E1 E2]; auto. subst. auto.
Qed.

Lemma concat_inj : forall (A : Type) (n : nat) (l1 l2 : list (list A)),
  Forall (fun r => length r = n) l1 -> Forall (fun r => length r = n) l2 ->
  length l1 = length l2 -> concat l1 = concat l2 -> l1 = l2.
Proof.
  induction l1 as [|x l1 IH]; intros [|y l2] H1 H2 HL H; simpl in *; try discriminate; [reflexivity|].
  inversion H1; subst. inversion H2; subst.
  destruct (app_eq_len _ x y (concat l1) (concat l2)) as [E1 E2]; [congruence|exact H|].
  subst. f_equal. apply IH; auto.
Qed.

Lemma key_inj : forall g p q, length p = length q -> key g p = key g q -> relabel g p = relabel g q.
Proof.
  intros g p q HL H. unfold key in H.
  apply app_eq_len in H; [|apply upper_length; auto]. destruct H as [_ H].
  apply (concat_inj _ (length p)); auto.
  - apply Forall_forall. intros r Hr. rewrite <- (relabel_length g p). apply relabel_wf. exact Hr.
  - apply Forall_forall. intros r Hr. rewrite HL, <- (relabel_length g q). apply relabel_wf. exact Hr.
  - rewrite !relabel_length. exact HL.
Qed.

(* lexicographic order on bit strings: a total order *)
Lemma lexleb_refl : forall a, lexleb a a = true.
Proof. induction a as [|x a IH]; simpl; [reflexivity|]. rewrite eqb_reflx. exact IH. Qed.

Lemma lexleb_total : forall a b, lexleb a b = true \/ lexleb b a = true.
Proof.
  induction a as [|x a IH]; intros [|y b]; simpl; auto.
  destruct x, y; simpl; auto.
Qed.

Lemma lexleb_antisym : forall a b, lexleb a b = true -> lexleb b a = true -> a = b.
Proof.
  induction a as [|x a IH]; intros [|y b]; simpl; intros H1 H2; try discriminate; [reflexivity|].
  destruct x, y; simpl in *; try discriminate; f_equal; apply IH; assumption.
Qed.

Lemma lexleb_trans : forall a b c, lexleb a b = true -> lexleb b c = true -> lexleb a c = true.
Proof.
  induction a as [|x a IH]; intros [|y b] [|z c]; simpl; intros H1 H2; try discriminate; try reflexivity.
  destruct x, y, z; simpl in *; try discriminate; try reflexivity; eapply IH; eassumption.
Qed.

Lemma best_le : forall g l p q, In q (p :: l) -> lexleb (key g (best g p l)) (key g q) = true.
Proof.
  intros g l. induction l as [|x r IH]; intros p q Hq; simpl.
  - destruct Hq as [Hq|[]]. subst. apply lexleb_refl.
  - destruct (lexleb (key g p) (key g x)) eqn:E.
    + destruct Hq as [Hq|[Hq|Hq]].
      * subst. apply IH. simpl. auto.
      * subst. eapply lexleb_trans; [apply (IH p p); simpl; auto|exact E].
      * apply IH. simpl. auto.
    + assert (E' : lexleb (key g x) (key g p) = true).
      { destruct (lexleb_total (key g p) (key g x)) as [H|H]; [congruence|exact H]. }
      destruct Hq as [Hq|[Hq|Hq]].
      * subst. eapply lexleb_trans; [apply (IH x x); simpl; auto|exact E'].
      * subst. apply IH. simpl. auto.
      * apply IH. simpl. auto.
Qed.

(* the least key over a list of leaves does not depend on the order or on the labelling *)
Lemma best_key_invariant : forall (f : nat -> nat) g g' p l p' l',
  (forall q, In q (p :: l) -> key g' (map f q) = key g q) ->
  Permutation (map (map f) (p :: l)) (p' :: l') ->
  key g' (best g' p' l') = key g (best g p l).
Proof.
  intros f g g' p l p' l' Hk Hp.
  pose proof (best_In g l p) as HB. pose proof (best_In g' l' p') as HB'.
  apply lexleb_antisym.
  - (* best' <= image of best *)
    rewrite <- (Hk _ HB). apply best_le.
    apply (Permutation_in _ Hp). apply in_map. exact HB.
  - apply (Permutation_in _ (Permutation_sym Hp)) in HB'.
    apply in_map_iff in HB'. destruct HB' as [q [Eq Hq]]. rewrite <- Eq, (Hk _ Hq).
    apply best_le. exact Hq.
Qed.

Lemma all_some_map_Some : forall (A : Type) (l : list (option A)) (r : list A),
  all_some l = Some r <-> l = map Some r.
Proof.
  induction l as [|[x|] l IH]; intros r; simpl.
  - split; intros H; [inversion H; reflexivity|]. destruct r; [reflexivity|discriminate].
  - destruct r as [|y r].
    + split; intros H; [|discriminate]. destruct (all_some l); discriminate.
    + specialize (IH r). simpl. destruct (all_some l) as [r'|].
      * split; intros H.
        -- inversion H; subst. f_equal. apply IH. reflexivity.
        -- inversion H; subst. f_equal. f_equal.
           assert (E : Some r' = Some r) by (apply IH; reflexivity). inversion E. reflexivity.
      * split; intros H; [discriminate|]. inversion H; subst.
        assert (E : @None (list A) = Some r) by (apply IH; reflexivity). discriminate.
  - split; intros H; [discriminate|]. destruct r; discriminate.
Qed.

Lemma all_some_none : forall (A : Type) (l : list (option A)), all_some l = None <-> In None l.
Proof.
  induction l as [|[x|] l IH]; simpl.
  - split; [discriminate|tauto].
  - destruct (all_some l) as [r'|].
    + split; [discriminate|]. intros [H|H]; [discriminate|]. apply IH in H. discriminate.
    + split; [intros _; right; apply IH; reflexivity|reflexivity].
  - split; auto.
Qed.

Lemma map_Some_inj : forall (A : Type) (a b : list A), map Some a = map Some b -> a = b.
Proof.
  induction a as [|x a IH]; intros [|y b] H; simpl in H; try discriminate; [reflexivity|].
  inversion H; subst. f_equal. apply IH. assumption.
Qed.

Lemma all_some_perm : forall (f : nat -> nat) (L L' : list (option (list nat))),
  Permutation (map (option_map (map f)) L) L' ->
  match all_some L, all_some L' with
  | Some l, Some l' => Permutation (map (map f) l) l'
  | None, None => True
  | _, _ => False
  end.
Proof.
  intros f L L' H.
  destruct (all_some L) as [l|] eqn:E; destruct (all_some L') as [l'|] eqn:E'.
  - apply all_some_map_Some in E. apply all_some_map_Some in E'. subst.
    rewrite map_map in H. simpl in H. rewrite <- (map_map (map f) Some) in H.
    apply Permutation_sym in H. apply Permutation_map_inv in H.
    destruct H as [l3 [E3 H3]].
    apply map_Some_inj in E3. subst l3. exact H3.
  - apply all_some_map_Some in E. apply all_some_none in E'. subst.
    apply (Permutation_in _ (Permutation_sym H)) in E'.
    rewrite map_map in E'. apply in_map_iff in E'. destruct E' as [x [Ex _]]. discriminate.
  - apply all_some_none in E. apply all_some_map_Some in E'. subst.
    assert (In None (map Some l')).
    { apply (Permutation_in _ H). apply in_map_iff. exists None. split; [reflexivity|exact E]. }
    apply in_map_iff in H0. destruct H0 as [x [Ex _]]. discriminate.
  - exact I.
Qed.

(* ------------------------------------------------------------------ main theorems *)

Lemma papp_inj : forall n p u v, is_perm n p = true -> u < n -> v < n -> papp p u = papp p v -> u = v.
Proof.
  intros n p u v H Hu Hv E. pose proof (is_perm_length _ _ H) as HL.
  pose proof (is_perm_NoDup _ _ H) as Hnd. rewrite (NoDup_nth p 0) in Hnd.
  apply Hnd; try lia. rewrite <- (papp_nth p u 0), <- (papp_nth p v 0) by lia. exact E.
Qed.

Lemma init_part_sim : forall n p, is_perm n p = true -> sim (papp p) (init_part n) (init_part n).
Proof.
  intros n p H.
  assert (HP : Permutation (map (papp p) (seq 0 n)) (seq 0 n)).
  { rewrite <- (is_perm_length _ _ H) at 1. rewrite map_papp_seq. apply is_perm_Permutation. exact H. }
  destruct n as [|n]; [constructor|]. unfold init_part. constructor; [|constructor].
  split; [reflexivity|exact HP].
Qed.

(* The canonical graph of the reference labelling does not depend on the labelling of the
   input: for EVERY graph g (square matrix or not) and EVERY permutation pi, as options (if one
   side ran out of fuel so would the other; see [canon_ref_total] for "never"). *)
Theorem canon_graph_invariant : forall g pi, is_perm (length g) pi = true ->
  canon_graph (relabel g pi) = canon_graph g.
Proof.
  intros g pi Hpi. set (n := length g). set (g1 := relabel g pi). set (f := papp pi).
  pose proof (is_perm_length _ _ Hpi) as HLpi. fold n in HLpi.
  assert (HL1 : length g1 = n) by (unfold g1; rewrite relabel_length; exact HLpi).
  assert (compat : forall u v, In u (seq 0 n) -> In v (seq 0 n) -> adjb g (f u) (f v) = adjb g1 u v).
  { intros u v Hu Hv. apply in_seq in Hu. apply in_seq in Hv. unfold g1, f.
    symmetry. apply adjb_relabel; lia. }
  assert (inj : forall u v, In u (seq 0 n) -> In v (seq 0 n) -> f u = f v -> u = v).
  { intros u v Hu Hv. apply in_seq in Hu. apply in_seq in Hv. apply (papp_inj n pi); auto; lia. }
  unfold canon_graph, canon_ref, all_leaves. rewrite HL1. fold n.
  pose proof (refine_sim f g1 g (seq 0 n) compat (init_part n) (init_part n)) as HR.
  rewrite init_part_verts in HR. specialize (HR (incl_refl _) (init_part_sim n pi Hpi)).
  destruct (refine g1 (init_part n)) as [Q|] eqn:EQ; destruct (refine g (init_part n)) as [Q'|] eqn:EQ';
    simpl in HR; try contradiction; [|reflexivity].
  pose proof (refine_verts _ _ _ EQ) as HQ. rewrite init_part_verts in HQ.
  assert (HQnd : NoDup (verts Q)) by (apply (Permutation_NoDup (Permutation_sym HQ)), seq_NoDup).
  assert (HQV : incl (verts Q) (seq 0 n)) by (intros x Hx; apply (Permutation_in _ HQ); exact Hx).
  pose proof (leaves_sim f g1 g (seq 0 n) compat inj n Q Q' HQnd HQV HR) as HLS.
  pose proof (all_some_perm f _ _ HLS) as HA.
  assert (Hleaf : forall l q, all_some (leaves n g1 Q) = Some l -> In q l -> is_perm n q = true).
  { intros l q El Hq. rewrite <- HL1. apply (all_leaves_perm g1 l q); [|exact Hq].
    unfold all_leaves. rewrite HL1, EQ. exact El. }
  destruct (all_some (leaves n g1 Q)) as [l|] eqn:El; destruct (all_some (leaves n g Q')) as [l'|] eqn:El';
    try contradiction; [|reflexivity].
  destruct l as [|p r].
  - apply Permutation_nil in HA. subst l'. reflexivity.
  - destruct l' as [|p' r']; [apply Permutation_sym, Permutation_nil in HA; discriminate|].
    f_equal.
    assert (Hk : forall q, In q (p :: r) -> key g (map f q) = key g1 q).
    { intros q Hq. apply key_map. intros u v Hu Hv. apply compat.
      - apply in_seq. pose proof (is_perm_lt _ _ _ (Hleaf _ q eq_refl Hq) Hu). lia.
      - apply in_seq. pose proof (is_perm_lt _ _ _ (Hleaf _ q eq_refl Hq) Hv). lia. }
    pose proof (best_key_invariant f g1 g p r p' r' Hk HA) as HK.
    pose proof (best_In g1 r p) as HB.
    rewrite <- (Hk _ HB) in HK.
    rewrite <- (relabel_map f g1 g (best g1 p r)).
    + symmetry. apply key_inj; [|exact HK].
      rewrite map_length, (is_perm_length _ _ (Hleaf _ _ eq_refl HB)).
      apply is_perm_length.
      assert (In (best g p' r') (map (map f) (p :: r))) by
        (apply (Permutation_in _ (Permutation_sym HA)), best_In).
      apply in_map_iff in H. destruct H as [q [Eq Hq]]. rewrite <- Eq.
      apply (pcomp_perm n pi q Hpi). apply (Hleaf _ q eq_refl Hq).
    + intros u v Hu Hv. apply compat.
      * apply in_seq. pose proof (is_perm_lt _ _ _ (Hleaf _ _ eq_refl HB) Hu). lia.
      * apply in_seq. pose proof (is_perm_lt _ _ _ (Hleaf _ _ eq_refl HB) Hv). lia.
Qed.

Lemma canon_graph_spec : forall g cg, canon_graph g = Some cg ->
  exists p, canon_ref g = Some p /\ is_perm (length g) p = true /\ cg = relabel g p.
Proof.
  intros g cg H. unfold canon_graph in H. destruct (canon_ref g) as [p|] eqn:E; [|discriminate].
  inversion H; subst. exists p. split; [reflexivity|]. split; [apply canon_ref_perm; exact E|reflexivity].
Qed.

(* The reference canonical graph is a complete isomorphism invariant wherever it is defined. *)
Theorem canon_ref_complete : forall g h cg ch, wf_graph g -> wf_graph h ->
  canon_graph g = Some cg -> canon_graph h = Some ch -> (cg = ch <-> iso g h).
Proof.
  intros g h cg ch Hg Hh Eg Eh. split.
  - intros E. subst ch.
    destruct (canon_graph_spec _ _ Eg) as [p [_ [Hp E1]]].
    destruct (canon_graph_spec _ _ Eh) as [q [_ [Hq E2]]].
    apply iso_trans with cg; [subst cg; apply relabel_iso; exact Hp|].
    apply iso_sym; [exact Hh|]. rewrite E2. apply relabel_iso. exact Hq.
  - intros [p [Hp E]]. subst h. rewrite (canon_graph_invariant g p Hp) in Eh. congruence.
Qed.
