(* Canon/SearchDeage.v — the relation [R a child parent]: child is what the partition parent has
   become through splitBin / refinement at age a (every new divider has age a, the old ones keep
   theirs); [deage] at age a gives parent back. *)
From Coq Require Import List Arith Bool ZArith Lia Permutation Sorted.
From Mamba Require Import Canon.Perm Canon.Iso Canon.Model Canon.Refine Canon.Sorted Canon.Tree Canon.Fuel
  Disjoint.Model Canon.SearchModel Canon.SearchCells Canon.SearchTarget.
Import ListNotations.
Open Scope nat_scope.

(* l is what the bin c has become at age a: new dividers of age a, then the old divider *)
Definition vrep (a : Z) (c : acell) (l : list acell) : Prop :=
  (exists frs fl f, l = frs ++ [(cage c, (fl, f))] /\ Forall (fun d => cage d = a) frs /\
    Permutation (order_of frs ++ f) (cverts c) /\ (frs = [] -> f = cverts c)) /\
  (cverts c <> [] -> nonempty l) /\ (asc (cverts c) -> casc l).

Lemma acell_eta : forall c : acell, c = (cage c, (cflag c, cverts c)).
Proof. intros [a [f v]]. reflexivity. Qed.

Lemma order_of_single : forall c, order_of [c] = cverts c.
Proof. intros c. rewrite order_of_cons, order_of_nil. apply app_nil_r. Qed.

Lemma vrep_flag : forall a c fl, vrep a c [(cage c, (fl, cverts c))].
Proof.
  intros a c fl. split; [|split].
  - exists [], fl, (cverts c). repeat split; [constructor|simpl; apply Permutation_refl].
  - intros H. constructor; [exact H|constructor].
  - intros H. constructor; [exact H|constructor].
Qed.

Lemma vrep_refl : forall a c, vrep a c [c].
Proof. intros a c. rewrite (acell_eta c) at 2. apply vrep_flag. Qed.

Lemma vrep_order : forall a c l, vrep a c l -> Permutation (order_of l) (cverts c).
Proof.
  intros a c l [(frs & fl & f & -> & _ & HP & _) _]. rewrite order_of_app, order_of_single. exact HP.
Qed.

Lemma vrep_ages : forall a c l, vrep a c l -> cage c = a -> Forall (fun d => cage d = a) l.
Proof.
  intros a c l [(frs & fl & f & -> & HA & _ & _) _] Hc. apply Forall_app. split; [exact HA|].
  constructor; [exact Hc|constructor].
Qed.

Lemma vrep_nonnil : forall a c l, vrep a c l -> l <> [].
Proof. intros a c l [(frs & fl & f & -> & _) _] H. destruct frs; discriminate. Qed.

Lemma vrep_last_age : forall a c l, vrep a c l -> exists l' d, l = l' ++ [d] /\ cage d = cage c /\
  Forall (fun d => cage d = a) l'.
Proof. intros a c l [(frs & fl & f & -> & HA & _) _]. exists frs, (cage c, (fl, f)). auto. Qed.

Lemma vrep_nonempty : forall a c l, vrep a c l -> cverts c <> [] -> nonempty l.
Proof. intros a c l [_ [H _]]. exact H. Qed.

Lemma vrep_casc : forall a c l, vrep a c l -> asc (cverts c) -> casc l.
Proof. intros a c l [_ [_ H]]. exact H. Qed.

Lemma Forall2_concat_Forall : forall (A B : Type) (P : A -> Prop) (Q : B -> Prop) (Rel : A -> list B -> Prop)
  (l : list A) (parts : list (list B)),
  (forall x px, Rel x px -> P x -> Forall Q px) -> Forall2 Rel l parts -> Forall P l -> Forall Q (concat parts).
Proof.
  intros A B P Q Rel l parts H HF. induction HF as [|x px l parts Hx _ IH]; intros HP; simpl; [constructor|].
  inversion HP; subst. apply Forall_app. split; [eapply H; eassumption|apply IH; assumption].
Qed.

(* replacing every bin of a replacement by a replacement is a replacement *)
Lemma vrep_concat : forall a p l parts, vrep a p l -> Forall2 (vrep a) l parts -> vrep a p (concat parts).
Proof.
  intros a p l parts [(frs & fl & f & -> & HA & HP & HE) [HN HS]] HF. split; [|split].
  - apply Forall2_app_inv_l in HF. destruct HF as (pf & pl & HF1 & HF2 & ->).
    inversion HF2 as [|x y l1 l2 Hlast Hnil]; subst. inversion Hnil; subst.
    destruct Hlast as [(frs' & fl' & f' & -> & HA' & HP' & HE') _]. simpl in *.
    rewrite concat_app. simpl. rewrite app_nil_r.
    exists (concat pf ++ frs'), fl', f'. split; [rewrite app_assoc; reflexivity|]. split; [|split].
    + apply Forall_app. split; [|exact HA'].
      clear - HF1 HA. induction HF1 as [|d pd frs pf Hd _ IH]; simpl; [constructor|].
      apply Forall_cons_iff in HA. destruct HA as [HA1 HA2]. apply Forall_app. split; [|apply IH; assumption].
      eapply vrep_ages; eassumption.
    + rewrite order_of_app, <- app_assoc.
      apply perm_trans with (order_of frs ++ f); [|exact HP].
      apply Permutation_app; [|exact HP'].
      clear - HF1. induction HF1 as [|d pd frs pf Hd _ IH]; simpl; [constructor|].
      rewrite order_of_app, order_of_cons. apply Permutation_app; [|exact IH].
      eapply vrep_order; eassumption.
    + intros HN0. apply app_eq_nil in HN0. destruct HN0 as [HN1 HN2].
      assert (frs = []).
      { destruct HF1 as [|d pd frs pf Hd _]; [reflexivity|]. simpl in HN1.
        apply app_eq_nil in HN1. destruct HN1 as [HN1 _]. exfalso. eapply vrep_nonnil; eassumption. }
      subst frs. rewrite (HE' HN2). apply HE. reflexivity.
  - intros Hp. specialize (HN Hp).
    eapply (Forall2_concat_Forall _ _ (fun c => cverts c <> []) (fun c => cverts c <> [])); [|exact HF|exact HN].
    intros x px Hx Hne. eapply vrep_nonempty; eassumption.
  - intros Hp. specialize (HS Hp).
    eapply (Forall2_concat_Forall _ _ (fun c => asc (cverts c)) (fun c => asc (cverts c))); [|exact HF|exact HS].
    intros x px Hx Hne. eapply vrep_casc; eassumption.
Qed.

Definition grp (a : Z) (l : list acell) (p : acell) : Prop := cage p <> a /\ vrep a p l.

Definition R (a : Z) (child parent : list acell) : Prop :=
  exists groups, child = concat groups /\ Forall2 (grp a) groups parent.

Lemma R_refl : forall a parent, Forall (fun p => cage p <> a) parent -> R a parent parent.
Proof.
  intros a parent H. exists (map (fun c => [c]) parent). split.
  - induction parent as [|c r IH]; simpl; [reflexivity|]. inversion H; subst. rewrite <- IH by assumption. reflexivity.
  - induction H as [|c r Hc _ IH]; simpl; constructor; [|exact IH]. split; [exact Hc|apply vrep_refl].
Qed.

Lemma R_step : forall a child parent parts, R a child parent -> Forall2 (vrep a) child parts ->
  R a (concat parts) parent.
Proof.
  intros a child parent parts (groups & -> & HG). revert parts.
  induction HG as [|l p groups parent [Hp Hl] _ IH]; intros parts HF; simpl in *.
  - inversion HF; subst. exists []. split; [reflexivity|constructor].
  - apply Forall2_app_inv_l in HF. destruct HF as (p1 & p2 & HF1 & HF2 & ->).
    destruct (IH _ HF2) as (groups' & E & HG').
    exists (concat p1 :: groups'). split.
    + rewrite concat_app, E. reflexivity.
    + constructor; [|exact HG']. split; [exact Hp|]. eapply vrep_concat; eassumption.
Qed.

Lemma R_order : forall a child parent, R a child parent -> Permutation (order_of child) (order_of parent).
Proof.
  intros a child parent (groups & -> & HG).
  induction HG as [|l p groups parent [_ Hl] _ IH]; simpl; [constructor|].
  rewrite order_of_app, order_of_cons. apply Permutation_app; [eapply vrep_order; eassumption|exact IH].
Qed.

(* ---------------------------------------------------------------- deage on the bins *)

Definition pv (pend : option (list nat)) : list nat := match pend with Some vs => vs | None => [] end.

Definition tri (j : nat) : nat := ((j - 1) * j) / 2.

(* the effect of the kept bins on (singletonPrefixLength, value): only a merged bin acts *)
Fixpoint svg (groups : list (list acell)) (j spl : nat) (v : list nat) : nat * list nat :=
  match groups with
  | [] => (spl, v)
  | l :: r =>
      let sv := if (1 <? length l) && (j <? spl) then (j, strip_ge (tri j) v) else (spl, v) in
      svg r (S j) (fst sv) (snd sv)
  end.

Lemma deage_loop_frs : forall a frs rest pend out spl v, Forall (fun d => cage d = a) frs -> frs <> [] ->
  deage_loop a (frs ++ rest) pend out spl v = deage_loop a rest (Some (pv pend ++ order_of frs)) out spl v.
Proof.
  intros a frs. induction frs as [|d frs IH]; intros rest pend out spl v HA HN; [congruence|].
  inversion HA; subst. simpl. rewrite Z.eqb_refl.
  destruct frs as [|d' frs'].
  - simpl. rewrite order_of_cons, order_of_nil, app_nil_r. destruct pend; reflexivity.
  - rewrite IH by (auto; discriminate). f_equal. f_equal. simpl pv.
    rewrite (order_of_cons d). destruct pend; simpl; rewrite <- ?app_assoc; reflexivity.
Qed.

Lemma deage_loop_group : forall a l p rest out spl v, grp a l p -> asc (cverts p) -> cflag p = false ->
  deage_loop a (l ++ rest) None out spl v =
  let sv := if (1 <? length l) && (length out <? spl) then (length out, strip_ge (tri (length out)) v) else (spl, v) in
  deage_loop a rest None (p :: out) (fst sv) (snd sv).
Proof.
  intros a l [ap [flp vp]] rest out spl v [Hp [(frs & fl & f & -> & HA & HP & HE) _]] Hasc Hfl.
  unfold cage, cflag, cverts in *. simpl in *. subst flp.
  apply Z.eqb_neq in Hp.
  destruct frs as [|d frs].
  - simpl. rewrite (HE eq_refl). unfold cage. simpl. rewrite Hp. reflexivity.
  - rewrite <- app_assoc. rewrite deage_loop_frs by (auto; discriminate).
    match goal with |- context [1 <? ?L] => assert (EL : 1 <? L = true) end.
    { apply Nat.ltb_lt. rewrite app_length. simpl. lia. }
    rewrite EL. clear EL. simpl pv. simpl app. cbn [deage_loop]. unfold cage at 1. cbn [fst]. rewrite Hp.
    unfold cverts at 1. cbn [snd]. rewrite (isort_of_perm _ _ HP Hasc).
    simpl andb. unfold tri, cage. cbn [fst]. destruct (length out <? spl); reflexivity.
Qed.

Theorem deage_loop_groups : forall a groups parent out spl v,
  Forall2 (grp a) groups parent -> casc parent -> unflagged parent ->
  deage_loop a (concat groups) None out spl v =
  (rev out ++ parent, None, fst (svg groups (length out) spl v), snd (svg groups (length out) spl v)).
Proof.
  intros a groups parent out spl v HG. revert out spl v.
  induction HG as [|l p groups parent Hg _ IH]; intros out spl v HA HU; simpl.
  - rewrite app_nil_r. reflexivity.
  - inversion HA; subst. inversion HU; subst.
    rewrite (deage_loop_group a l p (concat groups) out spl v Hg) by assumption.
    cbv zeta. rewrite IH by assumption. simpl. rewrite <- app_assoc. reflexivity.
Qed.

Lemma svg_noop : forall groups j spl v, spl <= j -> svg groups j spl v = (spl, v).
Proof.
  induction groups as [|l r IH]; intros j spl v H; simpl; [reflexivity|].
  assert (E : j <? spl = false) by (apply Nat.ltb_ge; exact H). rewrite E, andb_false_r. simpl.
  apply IH. lia.
Qed.

(* closed form: the first group with more than one bin decides *)
Lemma svg_first : forall pre lb post j spl v, Forall (fun l => length l = 1) pre -> 2 <= length lb ->
  svg (pre ++ lb :: post) j spl v =
  if j + length pre <? spl then (j + length pre, strip_ge (tri (j + length pre)) v) else (spl, v).
Proof.
  induction pre as [|l pre IH]; intros lb post j spl v HP HL; simpl.
  - rewrite Nat.add_0_r. assert (E : 1 <? length lb = true) by (apply Nat.ltb_lt; lia). rewrite E. simpl.
    destruct (j <? spl) eqn:EJ; simpl; apply svg_noop; [lia|apply Nat.ltb_ge in EJ; lia].
  - inversion HP; subst. rewrite H1. simpl. rewrite IH by assumption.
    replace (S j + length pre) with (j + S (length pre)) by lia. reflexivity.
Qed.

Lemma svg_trivial : forall groups j spl v, Forall (fun l => length l = 1) groups -> svg groups j spl v = (spl, v).
Proof.
  induction groups as [|l r IH]; intros j spl v H; simpl; [reflexivity|].
  inversion H; subst. rewrite H2. simpl. apply IH. assumption.
Qed.

(* ---------------------------------------------------------------- one or several splitting steps at age a *)

Definition V (a : Z) (cs cs' : list acell) : Prop :=
  exists parts, Forall2 (vrep a) cs parts /\ cs' = concat parts.

Lemma concat_singletons : forall (A : Type) (l : list A), concat (map (fun c => [c]) l) = l.
Proof. induction l as [|x l IH]; simpl; [reflexivity|]. rewrite IH. reflexivity. Qed.

Lemma V_refl : forall a cs, V a cs cs.
Proof.
  intros a cs. exists (map (fun c => [c]) cs). split; [|symmetry; apply concat_singletons].
  induction cs as [|c cs IH]; simpl; constructor; [apply vrep_refl|exact IH].
Qed.

Lemma V_trans : forall a x y z, V a x y -> V a y z -> V a x z.
Proof.
  intros a x y z (parts & HF & ->) (parts2 & HF2 & ->). revert parts2 HF2.
  induction HF as [|c pc x parts Hc _ IH]; intros parts2 HF2; simpl in *.
  - inversion HF2; subst. exists []. split; [constructor|reflexivity].
  - apply Forall2_app_inv_l in HF2. destruct HF2 as (q1 & q2 & H1 & H2 & ->).
    destruct (IH _ H2) as (parts3 & H3 & E3).
    exists (concat q1 :: parts3). split.
    + constructor; [eapply vrep_concat; eassumption|exact H3].
    + simpl. rewrite concat_app, E3. reflexivity.
Qed.

Lemma V_app : forall a x x' y y', V a x x' -> V a y y' -> V a (x ++ y) (x' ++ y').
Proof.
  intros a x x' y y' (p1 & H1 & ->) (p2 & H2 & ->). exists (p1 ++ p2). split.
  - apply Forall2_app; assumption.
  - rewrite concat_app. reflexivity.
Qed.

Lemma V_one : forall a c l, vrep a c l -> V a [c] l.
Proof.
  intros a c l H. exists [l]. split; [constructor; [exact H|constructor]|simpl; rewrite app_nil_r; reflexivity].
Qed.

Lemma V_R : forall a child child' parent, R a child parent -> V a child child' -> R a child' parent.
Proof. intros a child child' parent HR (parts & HF & ->). eapply R_step; eassumption. Qed.

Lemma V_order : forall a cs cs', V a cs cs' -> Permutation (order_of cs') (order_of cs).
Proof.
  intros a cs cs' (parts & HF & ->). induction HF as [|c pc cs parts Hc _ IH]; simpl; [constructor|].
  rewrite order_of_app, order_of_cons. apply Permutation_app; [eapply vrep_order; eassumption|exact IH].
Qed.

Lemma V_nonempty : forall a cs cs', V a cs cs' -> nonempty cs -> nonempty cs'.
Proof.
  intros a cs cs' (parts & HF & ->) HN.
  eapply (Forall2_concat_Forall _ _ (fun c => cverts c <> []) (fun c => cverts c <> [])); [|exact HF|exact HN].
  intros x px Hx Hne. eapply vrep_nonempty; eassumption.
Qed.

Lemma V_casc : forall a cs cs', V a cs cs' -> casc cs -> casc cs'.
Proof.
  intros a cs cs' (parts & HF & ->) HN.
  eapply (Forall2_concat_Forall _ _ (fun c => asc (cverts c)) (fun c => asc (cverts c))); [|exact HF|exact HN].
  intros x px Hx Hne. eapply vrep_casc; eassumption.
Qed.

Lemma V_ages : forall a b cs cs', V a cs cs' -> (a <= b)%Z -> ages_le b cs -> ages_le b cs'.
Proof.
  intros a b cs cs' (parts & HF & ->) Hab HA.
  eapply (Forall2_concat_Forall _ _ (fun c => (cage c <= b)%Z) (fun c => (cage c <= b)%Z)); [|exact HF|exact HA].
  intros x px [(frs & fl & f & -> & HA' & _) _] Hx. apply Forall_app. split.
  - eapply Forall_impl; [|exact HA']. intros d Hd. simpl in Hd. rewrite Hd. exact Hab.
  - constructor; [exact Hx|constructor].
Qed.

(* the bins in front that are singletons stay as they are (only their flag may change), and a
   bin of age a stays in front of what it becomes *)
Lemma vrep_singleton : forall a c l x, vrep a c l -> cverts c = [x] -> exists fl, l = [(cage c, (fl, [x]))].
Proof.
  intros a c l x [(frs & fl & f & -> & HA & HP & HE) [HN _]] Hc. rewrite Hc in *.
  assert (HN' : nonempty (frs ++ [(cage c, (fl, f))])) by (apply HN; discriminate).
  destruct frs as [|d frs].
  - exists fl. rewrite (HE eq_refl). reflexivity.
  - exfalso. apply Forall_app in HN'. destruct HN' as [H1 H2]. inversion H1; subst. inversion H2; subst.
    apply Permutation_length in HP. rewrite app_length, order_of_cons, app_length in HP. simpl in HP.
    unfold cverts in H5. simpl in H5. destruct (cverts d); [congruence|]. destruct f; [congruence|]. simpl in HP. lia.
Qed.

Definition same_cell (c d : acell) : Prop := cage c = cage d /\ cverts c = cverts d.

Lemma V_prefix : forall a cs cs' b, V a cs cs' ->
  (forall k c, k < b -> nth_error cs k = Some c -> exists x, cverts c = [x]) -> b <= length cs ->
  Forall2 same_cell (firstn b cs) (firstn b cs') /\
  (forall c, nth_error cs b = Some c -> cage c = a -> exists c', nth_error cs' b = Some c' /\ cage c' = a).
Proof.
  intros a cs cs' b (parts & HF & ->). revert b.
  induction HF as [|c pc cs parts Hc _ IH]; intros b HS HL.
  - simpl in HL. assert (b = 0) by lia. subst. simpl. split; [constructor|]. intros c H. discriminate.
  - destruct b as [|b].
    + simpl. split; [constructor|]. intros c0 H0 Ha. injection H0 as E0. subst c0.
      destruct Hc as [(frs & fl & f & -> & HA & _) _]. destruct frs as [|d frs]; simpl.
      * eexists. split; [reflexivity|exact Ha].
      * apply Forall_cons_iff in HA. destruct HA as [HA1 _]. eexists. split; [reflexivity|exact HA1].
    + destruct (HS 0 c ltac:(lia) eq_refl) as [x Hx].
      destruct (vrep_singleton _ _ _ _ Hc Hx) as [fl ->]. simpl in HL.
      destruct (IH b) as [I1 I2].
      * intros k c0 Hk H0. apply (HS (S k) c0); [lia|exact H0].
      * lia.
      * simpl. split; [constructor; [split; [reflexivity|simpl; exact Hx]|exact I1]|].
        intros c0 H0 Ha. exact (I2 c0 H0 Ha).
Qed.

(* ---------------------------------------------------------------- deage of a child *)

Lemma R_mark_groups : forall a groups parent c,
  Forall2 (grp a) groups parent -> nonempty parent -> fns parent < length parent ->
  nth_error (concat groups) (fns parent) = Some c -> cage c = a ->
  exists pre lb post, groups = pre ++ lb :: post /\ length pre = fns parent /\
    Forall (fun l => length l = 1) pre /\ 2 <= length lb.
Proof.
  intros a groups parent c HG. induction HG as [|l p groups parent [Hp Hl] HG IH]; intros HN HL HC Ha.
  - simpl in HL. lia.
  - apply Forall_cons_iff in HN. destruct HN as [Hpn HN]. simpl in *.
    destruct (length (cverts p) =? 1) eqn:E1.
    + apply Nat.eqb_eq in E1. apply single_length in E1. destruct E1 as [x Hx].
      destruct (vrep_singleton _ _ _ _ Hl Hx) as [fl ->]. simpl in HC.
      destruct (IH HN ltac:(lia) HC Ha) as (pre & lb & post & -> & H1 & H2 & H3).
      exists ([(cage p, (fl, [x]))] :: pre), lb, post. simpl. repeat split; try lia; try assumption.
      constructor; [reflexivity|assumption].
    + exists [], l, groups. simpl. repeat split; [constructor|].
      destruct Hl as [(frs & fl & f & -> & HA & _) _]. destruct frs as [|d frs].
      * simpl in HC. inversion HC; subst c. simpl in Ha. congruence.
      * rewrite app_length. simpl. lia.
Qed.

Definition deage_sv (b spl : nat) (v : list nat) : nat * list nat :=
  if b <? spl then (b, strip_ge (tri b) v) else (spl, v).

Theorem deage_child : forall a child parent c ps,
  R a child parent -> casc parent -> unflagged parent -> nonempty parent -> fns parent < length parent ->
  nth_error child (fns parent) = Some c -> cage c = a ->
  p_cells ps = child -> p_age ps = a ->
  deage ps = Ok (mkP parent (a - 1)%Z (snd (deage_sv (fns parent) (p_spl ps) (p_value ps)))
                   (fst (deage_sv (fns parent) (p_spl ps) (p_value ps)))).
Proof.
  intros a child parent c ps (groups & -> & HG) HA HU HN HL HC Ha Ecs Eage.
  destruct (R_mark_groups _ _ _ _ HG HN HL HC Ha) as (pre & lb & post & -> & H1 & H2 & H3).
  unfold deage. rewrite Ecs, Eage.
  rewrite (deage_loop_groups a _ parent [] (p_spl ps) (p_value ps) HG HA HU). simpl rev. simpl app.
  rewrite (svg_first pre lb post 0 _ _ H2 H3). simpl plus. rewrite H1. unfold deage_sv.
  destruct (fns parent <? p_spl ps); reflexivity.
Qed.
