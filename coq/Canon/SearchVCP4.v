(* Canon/SearchVCP4.v — verification condition for the third layer of the invariant at a leaf: a better
   leaf becomes the best one; a leaf with the certificate of a recorded leaf yields an automorphism and
   a jump back (Heuristic 1); any other leaf is dominated by the best certificate. *)
From Coq Require Import List Arith Bool ZArith Lia Permutation Sorted.
From Mamba Require Import Canon.Perm Canon.Iso Canon.Model Canon.Refine Canon.Sorted Canon.Tree Canon.Fuel
  Disjoint.Model Disjoint.Proofs Canon.SearchModel Canon.SearchHoare Canon.SearchCells Canon.SearchTarget
  Canon.SearchDeage Canon.SearchRefine Canon.SearchExec Canon.SearchValue Canon.SearchExpand Canon.SearchCert
  Canon.SearchOrder Canon.SearchEquiv Canon.SearchWalk Canon.SearchEquit Canon.SearchCut Canon.SearchSibling
  Canon.SearchLink Canon.SearchInvT Canon.SearchVCT Canon.SearchInvV Canon.SearchVCV Canon.SearchPrune
  Canon.SearchGroup Canon.SearchCutW Canon.SearchInvP Canon.SearchVCP1 Canon.SearchVCP3.
Import ListNotations.
Open Scope nat_scope.

Section VCP4.
Variable g : graph.
Variables n m : nat.
Variable clsf : nat -> nat.
Variable order0 : list nat.
Variable root : part.
Hypothesis Hg : simple g.
Hypothesis Hn : length g = n.
Hypothesis Hm : m = num_edges g.
Hypothesis Hm0 : 0 < m.

Notation Xc := (Kc clsf order0).
Notation PPstep := (PPstep g n m clsf order0 root).
Notation PPtop := (PPtop g n m clsf order0 root).
Notation PinvA := (PinvA g n clsf root).
Notation RecI := (RecI g n root).
Notation DomI := (DomI g n).
Notation WalkI := (WalkI g root).
Notation CWI := (CWI g n).

Definition Fixall (anc : list (list acell)) (keep : nat) (gam : list nat) : Prop :=
  forall k P, k < keep -> nth_error anc k = Some P -> sim (gfun gam) (erase P) (erase P).

(* ---------------------------------------------------------------- Heuristic 1 is sound *)

Lemma h1_sound : forall anc path choices cb rp rlen rperm gam keep lam,
  stack_ok g n root Xc anc path choices -> WalkI anc path -> 1 <= length path ->
  walk g root path = Some lam -> target lam = None ->
  RecI anc path (S (ltop path)) cb rp rlen rperm ->
  autf g g n (gfun gam) -> map (gfun gam) rperm = verts lam ->
  cle (certp g n (verts lam)) cb ->
  h1_keep path rp = Some keep ->
  Fixall anc keep gam /\
  (forall P Q, nth_error anc (keep - 1) = Some P -> child g (erase P) (nth (keep - 1) path 0) = Some Q -> dom g n cb Q).
Proof.
  intros anc path choices cb rp rlen rperm gam keep lam HS HW HL Hwl Htl ((lf & Hwlf & Htlf & Hvlf) & HLx & HD) Hf Htk Hcle HK.
  destruct (h1_keep_spec _ _ _ HK HL) as (Hk & Hfd & Hdiff).
  pose proof (stack_ok_lengths g n root Xc _ _ _ HS) as [HLa _].
  (* every node kept is an ancestor of both leaves *)
  assert (A : forall k P, k < keep -> nth_error anc k = Some P ->
            shared rp path k /\ k < rlen /\ NoDup (verts (erase P)) /\
            walk g (erase P) (skipn k (firstn rlen rp)) = Some lf /\ walk g (erase P) (skipn k path) = Some lam).
  { intros k P Hkk HP.
    assert (HSh : shared rp path k).
    { unfold shared. rewrite <- (firstn_firstn_le _ rp k (keep - 1)) by lia. rewrite Hfd. apply firstn_firstn_le. lia. }
    destruct (HLx k P HP HSh) as [Hkr _].
    destruct HS as (_ & _ & HNo & _). pose proof (HNo k P HP) as HN.
    split; [exact HSh|]. split; [exact Hkr|]. split.
    { change (verts (erase P)) with (order_of P). apply (Permutation_NoDup (Permutation_sym (no_perm _ _ _ _ _ _ HN))), seq_NoDup. }
    split.
    - apply (walk_split g root (firstn rlen rp) k); [|exact Hwlf]. rewrite firstn_firstn_le by lia. rewrite HSh. apply HW. exact HP.
    - apply (walk_split g root path k); [apply HW; exact HP|exact Hwl]. }
  assert (Fx : Fixall anc keep gam).
  { intros k P Hkk HP. destruct (A k P Hkk HP) as (_ & _ & Hnd & W1 & W2).
    apply (takes_fixes (gfun gam) (erase P) lf lam).
    - apply (rdesc_wrefp g); [eapply walk_rdesc; exact W1|exact Hnd].
    - apply (rdesc_wrefp g); [eapply walk_rdesc; exact W2|exact Hnd].
    - unfold takes. rewrite Hvlf. exact Htk. }
  split; [exact Fx|].
  intros P Q HP HQ. set (d := keep - 1) in *.
  destruct (A d P ltac:(lia) HP) as (HSh & Hdr & Hnd & W1 & W2).
  rewrite (skipn_nth_cons path d) in W2 by lia.
  destruct (walk_cons_inv g _ _ _ _ W2) as (Q1 & HQ1 & W2'). rewrite HQ in HQ1. inversion HQ1; subst Q1.
  destruct (Nat.eq_dec keep (length path)) as [Ek|Ek].
  - (* no jump: the child is the leaf itself *)
    rewrite skipn_all2 in W2' by lia. simpl in W2'. inversion W2'; subst Q. apply dom_leaf; assumption.
  - destruct (Hdiff ltac:(lia)) as [Hne Hdl].
    destruct (HLx d P HP HSh) as [_ Hlow]. rewrite low_low in Hlow by lia.
    assert (Hlen : d < length (firstn rlen rp)) by (rewrite firstn_length; lia).
    rewrite (skipn_nth_cons _ d Hlen), nth_firstn' in W1 by lia.
    destruct (walk_cons_inv g _ _ _ _ W1) as (Qr & HQr & W1').
    assert (HDr : dom g n cb Qr).
    { apply (HD d P Qr HP HSh); [|exact HQr]. rewrite thr_low by lia. lia. }
    destruct HS as (_ & _ & HNo & _). pose proof (HNo d P HP) as HN.
    destruct (node_target g n root Xc _ _ HN) as (b & c & a & e & sz & EPc & HSb & Hb & Hsz & H2 & HB & He & HTg & _).
    pose proof (no_perm _ _ _ _ _ _ HN) as HPm.
    pose proof HQ as HQ'. pose proof HQr as HQr'. unfold child in HQ', HQr'. rewrite HTg in HQ', HQr'.
    destruct (nth_error (cverts c) (nth d path 0)) as [xl|] eqn:Exl; [|discriminate].
    destruct (nth_error (cverts c) (nth d rp 0)) as [xr|] eqn:Exr; [|discriminate].
    assert (Hbs : forall d0, In d0 (erase b) -> exists y, snd d0 = [y]).
    { intros d0 Hd0. unfold erase in Hd0. apply in_map_iff in Hd0. destruct Hd0 as (c0 & <- & Hc0).
      exact (proj1 (Forall_forall _ _) HSb c0 Hc0). }
    pose proof (child_leaf_pos g (erase P) _ _ _ _ _ Q lam HTg Exl HQ Hbs Hnd (walk_rdesc g _ _ _ W2')) as Pl.
    pose proof (child_leaf_pos g (erase P) _ _ _ _ _ Qr lf HTg Exr HQr Hbs Hnd (walk_rdesc g _ _ _ W1')) as Pr.
    assert (Egx : gfun gam xr = xl).
    { rewrite <- Htk, <- Hvlf in Pl. rewrite (map_nth_error (gfun gam) _ _ Pr) in Pl. inversion Pl. reflexivity. }
    assert (Hxr : xr < n).
    { assert (In xr (seq 0 n)).
      { apply (Permutation_in _ HPm). rewrite EPc, order_of_app, order_of_cons. apply in_or_app. right. apply in_or_app. left.
        eapply nth_error_In. exact Exr. }
      apply in_seq in H. lia. }
    apply (dom_transfer g n (finv n (gfun gam)) (erase P) (erase b) (cverts c) (erase a) (nth d path 0) (nth d rp 0) xl Q Qr cb).
    + apply autf_inv. exact Hf.
    + apply (sim_inv g); [exact Hf| |apply (Fx d P ltac:(lia) HP)].
      intros x Hx. apply (Permutation_in _ HPm). exact Hx.
    + exact HPm.
    + exact HTg.
    + exact Exl.
    + rewrite <- Egx. rewrite (proj1 (finv_spec g n (gfun gam) Hf xr Hxr)). exact Exr.
    + exact HQ.
    + exact HQr.
    + exact HDr.
Qed.

(* ---------------------------------------------------------------- assembling the invariant after a leaf *)

Lemma leaf_jump : forall anc st st' keep,
  PinvA anc st (S (ltop (s_path st))) -> 1 <= keep <= length (s_path st) ->
  s_path st' = firstn keep (s_path st) ->
  s_cb st' = s_cb st -> s_cbPath st' = s_cbPath st -> s_cbPerm st' = s_cbPerm st -> s_cbInv st' = s_cbInv st ->
  s_fl st' = s_fl st -> s_flPath st' = s_flPath st -> s_flInv st' = s_flInv st ->
  (forall P Q, nth_error anc (keep - 1) = Some P -> child g (erase P) (nth (keep - 1) (s_path st) 0) = Some Q ->
     dom g n (s_cb st) Q) ->
  (forall gam, In gam (s_gens st') -> In gam (s_gens st) \/ Fixall anc keep gam) ->
  (forall gsC, OrbC g n clsf (s_cbOrb st) gsC ->
     exists gsC', OrbC g n clsf (s_cbOrb st') gsC' /\ forall gam, In gam gsC' -> In gam gsC \/ Fixall anc keep gam) ->
  PinvA (firstn keep anc) st' (ltop (s_path st')).
Proof.
  intros anc st st' keep (HLen & HW & HD & HR) Hkeep Ep E1 E2 E3 E4 E5 E6 E7 Hdom Hgens Horb.
  unfold SearchInvP.PinvA, RecsI. rewrite Ep, E1, E2, E3, E4, E5, E6, E7.
  split; [rewrite !firstn_length; lia|]. split; [apply (WalkI_cut g n root Hn); exact HW|]. split.
  - apply (DomI_cut g n Hn); try assumption. intros P HP Q HQ. left. apply (Hdom P Q HP HQ).
  - intros Hcb. destruct (HR Hcb) as (lenB & lenF & permF & gsC & R1 & R2 & R3 & R4 & R5 & R6 & R7 & R8 & R9 & R10 & R11).
    destruct (Horb gsC R10) as (gsC' & HO' & HgC).
    exists lenB, lenF, permF, gsC'.
    split; [apply (RecI_cut g n root Hn); assumption|]. split; [apply (RecI_cut g n root Hn); assumption|].
    repeat (split; [assumption|]).
    split; [eapply (FixI_cut g n Hn); [exact R9|exact Hgens]|]. split; [exact HO'|eapply (FixI_cut g n Hn); [exact R11|exact HgC]].
Qed.

Lemma RecI_self : forall anc path cb rp lam, length anc = length path -> WalkI anc path ->
  walk g root path = Some lam -> target lam = None -> firstn (length path) rp = path ->
  dom g n cb lam ->
  RecI anc path (ltop path) cb rp (length path) (verts lam).
Proof.
  intros anc path cb rp lam HL HW Hwl Htl Hfp Hdl.
  assert (Hnth : forall k, k < length path -> nth k rp 0 = nth k path 0).
  { intros k Hk. rewrite <- Hfp at 1. symmetry. apply nth_firstn'. exact Hk. }
  split; [exists lam; rewrite Hfp; repeat split; assumption|]. split.
  - intros k P HP _. pose proof (anc_lt _ _ _ HP) as Hk. split; [lia|]. rewrite Hnth by lia.
    unfold low, ltop. destruct (S k =? length path) eqn:E; [|lia]. apply Nat.eqb_eq in E. replace (length path - 1) with k by lia. lia.
  - intros k P Q HP _ Ht HC. pose proof (anc_lt _ _ _ HP) as Hk. rewrite Hnth in Ht, HC by lia.
    destruct (Nat.eq_dec (S k) (length path)) as [E|E]; [|rewrite thr_low in Ht by exact E; lia].
    assert (Epath : path = firstn k path ++ [nth k path 0]).
    { rewrite <- firstn_S_nth by lia. rewrite E. symmetry. apply firstn_all. }
    rewrite Epath in Hwl. rewrite (walk_snoc_inv g root _ _ _ _ (HW k P HP) Hwl) in HC. inversion HC; subst Q. exact Hdl.
Qed.

Lemma cmp_gt_cle : forall a b, cmp_list a b = Gt -> cle b a.
Proof. intros a b H. unfold cle. rewrite cmp_list_swap, H. discriminate. Qed.

Lemma cmp_lt_cle : forall a b, cmp_list a b = Lt -> cle a b.
Proof. intros a b H. unfold cle. rewrite H. discriminate. Qed.

(* ---------------------------------------------------------------- the leaf *)

Theorem VCP_leaf : forall st st', PPtop st false -> length (p_cells (s_ps st)) = n ->
  leaf_step n m st = Ok st' -> PPstep st'.
Proof.
  intros st st' (anc & HT & HV & HPi & HSpl & Hpl & Hnil & Hwalk & _) Hlen HLf.
  specialize (Hwalk eq_refl).
  destruct (VCT_leafA g n m root Xc anc st st' HT Hlen HLf) as (HT' & Hlen' & Epath').
  pose proof (VCV_leaf g n m clsf order0 root Hg Hn Hm Hm0 st st' HV Hlen HLf) as HV'.
  destruct (leaf_facts g n m clsf order0 root Hg Hn Hm Hm0 st HV Hlen) as (HLp & HKc & Hval & Hvm & HLcp).
  pose proof HT as ((HS & HC & _) & Hsk & _). rewrite Hsk in HC.
  pose proof HV as (_ & _ & HR & _).
  pose proof HPi as (HLen & HW & HD & HRc).
  set (cells := p_cells (s_ps st)) in *. set (lam := erase cells) in *. set (order := order_of cells) in *.
  assert (Htl : target lam = None) by (apply target_singles; exact (proj1 HLp)).
  assert (Ecert : p_value (s_ps st) = certp g n order) by (rewrite Hval; apply leaf_cert; exact (proj1 HLp)).
  assert (Hvne : p_value (s_ps st) <> []) by (intros E; rewrite E in Hvm; simpl in Hvm; lia).
  exists (firstn (length (s_path st')) anc). split; [exact HT'|]. split; [exact HV'|].
  destruct (leaf_step_cases _ _ _ _ HLf) as [(HCm & cbInv & HI & ->)|[(HCm & gam & d & b & st1 & HG & HO & HRg & HBj)|
    [(HCm & HC2 & gam & st1 & HG & HRg & HBj)|(HCm & HC2 & ->)]]].
  - (* a better leaf *)
    destruct (new_best_fields n m (bump st) cbInv) as (F1 & F2 & F3 & F4 & F5 & F6 & F7 & F8 & F9).
    destruct (new_best_first n m (bump st) cbInv) as (N1 & N2 & N3).
    cbn [bump s_ps s_path s_choices s_skip s_count s_gens s_cb s_cbPerm s_fl s_flInv s_flOrb] in F1, F2, F3, F4, F5, F6, F7, F8, N1, N2, N3.
    destruct HR as [(A & B & C & D) R2 R3 R4 R5 R6].
    set (st2 := new_best n m (bump st) cbInv) in *.
    assert (Ecb : s_cb st2 = p_value (s_ps st)).
    { rewrite F7. apply copy_into_same_length. rewrite firstn_length, app_length, repeat_length. lia. }
    assert (Ecp : s_cbPerm st2 = order).
    { rewrite F8. apply copy_into_same_length. destruct (leafp_length _ _ HLp) as (_ & L2 & _). fold cells in L2. fold order in L2. lia. }
    assert (HInv : inverse n order cbInv) by (eapply inv_into_inverse; [exact HI|exact (proj2 HLp)|exact A]).
    assert (Ecbp : s_cbPath st2 = copy_into (s_cbPath st) (s_path st)).
    { unfold st2, new_best. cbn [bump s_count]. destruct (S (s_count st) =? 1); reflexivity. }
    assert (Ecbo : s_cbOrb st2 = new n).
    { unfold st2, new_best. cbn [bump s_count]. destruct (S (s_count st) =? 1); reflexivity. }
    assert (Eflp : s_flPath st2 = if S (s_count st) =? 1 then copy_into (s_flPath st) (s_path st) else s_flPath st).
    { unfold st2, new_best. cbn [bump s_count]. destruct (S (s_count st) =? 1); reflexivity. }
    assert (HLn : length (s_path st) <= n).
    { destruct (last_opt anc) as [P|] eqn:EP; [|apply last_opt_none in EP; subst anc; simpl in HLen; lia].
      assert (HP : nth_error anc (length anc - 1) = Some P) by (rewrite <- last_opt_nth; exact EP).
      assert (Hdepth : forall k P0, nth_error anc k = Some P0 -> k <= fns P0).
      { destruct HS as (_ & _ & _ & HCn & _). induction k as [|k IHk]; intros P0 HP0; [lia|].
        destruct (nth_error anc k) as [Pk|] eqn:Ek; [|apply nth_error_None in Ek; pose proof (anc_lt _ _ _ HP0); lia].
        pose proof (chain_fns _ _ _ (HCn k Pk P0 Ek HP0)). specialize (IHk Pk eq_refl). lia. }
      pose proof (Hdepth _ _ HP). destruct HS as (_ & _ & HNo & _). pose proof (HNo _ _ HP) as HN.
      pose proof (fns_le P). pose proof (nonempty_length _ (no_ne _ _ _ _ _ _ HN)).
      rewrite (Permutation_length (no_perm _ _ _ _ _ _ HN)), seq_length in H1.
      destruct (no_big _ _ _ _ _ _ HN) as (e & sz & HB).
      destruct (first_big_spec _ _ _ _ (no_ne _ _ _ _ _ _ HN) HB) as (b0 & c0 & a0 & EP0 & _ & _ & _ & _ & Hb0).
      assert (length P = length b0 + S (length a0)) by (rewrite EP0, app_length; reflexivity). lia. }
    assert (Hfcp : forall dst : list nat, length dst = n -> firstn (length (s_path st)) (copy_into dst (s_path st)) = s_path st).
    { intros dst Hd. unfold copy_into. rewrite firstn_app_le' by (rewrite firstn_length; lia).
      rewrite firstn_firstn_le by lia. apply firstn_all2. lia. }
    assert (Hcle : cle (s_cb st) (p_value (s_ps st))) by (apply cmp_gt_cle; exact HCm).
    assert (Hdl : dom g n (p_value (s_ps st)) lam).
    { apply dom_leaf; [exact Htl|]. change (verts lam) with order. rewrite <- Ecert. apply cle_refl. }
    rewrite F2. rewrite firstn_same_length by exact HLen.
    split; [|split; [|split]].
    + (* PinvA *)
      unfold SearchInvP.PinvA, RecsI. rewrite F2, Ecb, Ecp, Ecbp, Ecbo, Eflp, N1, N2, F6, F9.
      split; [exact HLen|]. split; [exact HW|]. split.
      * (* DomI *)
        destruct (last_opt anc) as [P|] eqn:EP.
        -- apply (DomI_lower g n anc (s_path st) (S (ltop (s_path st))) (ltop (s_path st)) _ P HLen EP).
           ++ eapply DomI_cb; [exact Hcle|exact HD].
           ++ intros i Hi1 Hi2. assert (i = ltop (s_path st)) by lia. subst i. intros Q HQ. left.
              assert (HL1 : 1 <= length (s_path st)).
              { destruct anc; [discriminate|]. simpl in HLen. lia. }
              assert (Ep : s_path st = firstn (length (s_path st) - 1) (s_path st) ++ [ltop (s_path st)]).
              { unfold ltop. rewrite <- firstn_S_nth by lia. replace (S (length (s_path st) - 1)) with (length (s_path st)) by lia.
                symmetry. apply firstn_all. }
              rewrite Ep in Hwalk. rewrite last_opt_nth, HLen in EP.
              rewrite (walk_snoc_inv g root _ _ _ _ (HW _ P EP) Hwalk) in HQ. inversion HQ; subst Q. exact Hdl.
        -- apply last_opt_none in EP. subst anc. intros k P i HP. destruct k; discriminate.
      * intros _.
        assert (RB : RecI anc (s_path st) (ltop (s_path st)) (p_value (s_ps st)) (copy_into (s_cbPath st) (s_path st))
                       (length (s_path st)) order).
        { apply (RecI_self anc (s_path st) _ _ lam HLen HW Hwalk Htl); [apply Hfcp; exact (proj1 Hpl)|exact Hdl]. }
        destruct (S (s_count st) =? 1) eqn:Ec.
        -- (* the first leaf *)
           apply Nat.eqb_eq in Ec. assert (Ecb0 : s_cb st = []) by (apply (proj1 R2); lia).
           exists (length (s_path st)), (length (s_path st)), order, [].
           split; [exact RB|]. split.
           { apply (RecI_self anc (s_path st) _ _ lam HLen HW Hwalk Htl); [apply Hfcp; exact (proj2 Hpl)|exact Hdl]. }
           split; [exact Ecert|]. split; [exact (proj2 HLp)|]. split; [rewrite copy_into_same_length by lia; exact Ecert|].
           split; [exact (proj2 HLp)|]. split; [exact HInv|]. split; [rewrite copy_into_same_length by (destruct HInv; lia); exact HInv|].
           split; [rewrite (proj2 R2 Ecb0); intros gm k P []|].
           split; [split; [constructor|exists []; split; [apply new_Rep|split; [intros x y []|intros gm x []]]]|intros gm k P []].
        -- (* a later leaf: the first leaf stays *)
           apply Nat.eqb_neq in Ec. assert (Hcb : s_cb st <> []) by (intros E; apply (proj1 R2) in E; lia).
           destruct (HRc Hcb) as (lenB & lenF & permF & gsC & Q1 & Q2 & Q3 & Q4 & Q5 & Q6 & Q7 & Q8 & Q9 & Q10 & Q11).
           exists (length (s_path st)), lenF, permF, [].
           split; [exact RB|]. split; [apply (RecI_lower g n root anc _ (S (ltop (s_path st)))); [lia|]; eapply RecI_cb; [exact Hcle|exact Q2]|].
           split; [exact Ecert|]. split; [exact (proj2 HLp)|]. split; [exact Q5|]. split; [exact Q6|]. split; [exact HInv|].
           split; [exact Q8|]. split; [exact Q9|].
           split; [split; [constructor|exists []; split; [apply new_Rep|split; [intros x y []|intros gm x []]]]|intros gm k P []].
    + (* CWI *)
      intros P HP. rewrite F4, Hsk, F1. left. apply HSpl. exact HP.
    + unfold plens. rewrite Ecbp, Eflp. destruct (S (s_count st) =? 1); rewrite ?copy_into_length; exact Hpl.
    + intros E. rewrite Ecb. rewrite E in Hwalk. simpl in Hwalk. inversion Hwalk as [Er]. exact Hdl.
  - (* same certificate as the best leaf *)
    assert (Ecb : s_cb st <> []).
    { intros E. rewrite E in HCm. apply cmp_nil_r in HCm. contradiction. }
    apply cmp_list_eq in HCm.
    destruct (r_best _ _ _ _ _ _ HR Ecb) as (csb & HLb & HKb & Ecp & Ecbv & HIb).
    assert (HA : isaut g n clsf gam).
    { eapply (gam_aut g n clsf order0 cells csb); try eassumption. rewrite <- Hval, <- Ecbv. exact HCm. }
    destruct (HRc Ecb) as (lenB & lenF & permF & gsC & R1 & R2 & R3 & R4 & R5 & R6 & R7 & R8 & R9 & R10 & R11).
    assert (HL1 : 1 <= length (s_path st)).
    { destruct (s_path st) eqn:E; [exfalso; apply Ecb; apply Hnil; reflexivity|simpl; lia]. }
    assert (Htk : map (gfun gam) (s_cbPerm st) = verts lam).
    { apply (gam_takes g n Hn order (s_cbPerm st) (s_cbInv st) gam R7 R4); [|exact HG].
      destruct (leafp_length _ _ HLp) as (_ & L2 & _). exact L2. }
    destruct (record_gen_fields n _ _ _ HRg) as (E1 & E2 & E3 & E4 & E5 & E6 & E7 & E8).
    cbn [set_cbOrb bump s_ps s_path s_choices s_skip s_cb s_cbPerm s_cbPath s_flPath] in E1, E2, E3, E4, E5, E6, E7, E8.
    destruct (back_jump_cases _ _ _ HBj) as (keep & ps' & HK & HDg & ->).
    rewrite E2, E7 in HK. rewrite E2, E1 in HDg.
    destruct (h1_sound anc (s_path st) (s_choices st) (s_cb st) (s_cbPath st) lenB (s_cbPerm st) gam keep lam
                HS HW HL1 Hwalk Htl R1 (isaut_autf g n clsf gam HA) Htk) as [Fx Hdom]; [|exact HK|].
    { change (verts lam) with order. rewrite <- Ecert, HCm. apply cle_refl. }
    destruct (h1_keep_spec _ _ _ HK HL1) as (Hkeep & _ & _).
    cbn [set_stack set_ps s_path]. rewrite E2, firstn_length. replace (Nat.min keep (length (s_path st))) with keep by lia.
    destruct (record_gen_cases _ _ _ _ HRg) as (d' & b' & HO' & Hcase).
    assert (Egens : forall gm, In gm (s_gens st1) -> In gm (s_gens st) \/ Fixall anc keep gm).
    { intros gm Hgm. destruct Hcase as [(_ & _ & ->)|(_ & ->)]; cbn in Hgm; [|left; exact Hgm].
      apply in_app_or in Hgm. destruct Hgm as [Hgm|[<-|[]]]; [left; exact Hgm|right; exact Fx]. }
    assert (Efields : s_cbInv st1 = s_cbInv st /\ s_fl st1 = s_fl st /\ s_flInv st1 = s_flInv st /\ s_cbOrb st1 = d).
    { destruct Hcase as [(_ & _ & ->)|(_ & ->)]; repeat split. }
    destruct Efields as (E9 & E10 & E11 & E12).
    split; [|split; [|split]].
    + set (st3 := set_stack (set_ps st1 ps') (firstn keep (s_path st)) (firstn keep (s_choices st1))).
      replace (ltop (firstn keep (s_path st))) with (ltop (s_path st3)) by reflexivity.
      apply (leaf_jump anc st st3 keep HPi Hkeep); try reflexivity; try assumption.
      intros gsC0 (HAC & psC & HRC & HpC & HcC).
      assert (Hseq : forall i, In i (seq 0 n) -> i < n) by (intros i Hi; apply in_seq in Hi; lia).
      destruct (orb_loop_spec n (seq 0 n) gam (s_cbOrb st) false d b psC HRC Hseq (isaut_gam_ok g n clsf _ HA) HO)
        as (ex & X1 & X2 & X3 & _).
      exists (gsC0 ++ [gam]). split.
      * split; [apply Forall_app; split; [exact HAC|constructor; [exact HA|constructor]]|].
        exists (psC ++ ex). unfold st3. cbn [set_stack set_ps s_cbOrb]. rewrite E12. split; [exact X1|]. split.
        -- intros x y Hin. apply in_app_or in Hin. destruct Hin as [Hin|Hin].
           ++ destruct (HpC x y Hin) as (gm & G1 & G2). exists gm. split; [apply in_or_app; left; exact G1|exact G2].
           ++ destruct (X2 x y Hin) as [G1 G2]. exists gam. split; [apply in_or_app; right; left; reflexivity|split; assumption].
        -- intros gm x Hgm Hx. apply in_app_or in Hgm. destruct Hgm as [Hgm|[<-|[]]].
           ++ apply conn_app_l. apply HcC; assumption.
           ++ apply X3. apply in_seq. lia.
      * intros gm Hgm. apply in_app_or in Hgm. destruct Hgm as [Hgm|[<-|[]]]; [left; exact Hgm|right; exact Fx].
    + (* CWI *)
      intros P' HP'. cbn [set_stack set_ps s_skip s_ps]. rewrite E4, Hsk. left.
      apply (deage_n_spl g n clsf order0 root Hn (length (s_path st) - keep) anc (s_path st) (s_choices st) (s_ps st) ps' HS HC HSpl ltac:(lia) HDg).
      replace (length (s_path st) - (length (s_path st) - keep)) with keep by lia. exact HP'.
    + unfold plens. cbn [set_stack set_ps s_cbPath s_flPath]. rewrite E7, E8. exact Hpl.
    + intros E. apply (f_equal (@length nat)) in E. cbn [set_stack set_ps s_path] in E. rewrite firstn_length in E. simpl in E. lia.
  - (* same certificate as the first leaf, below the best *)
    assert (Ecb : s_cb st <> []) by (eapply cmp_lt_nonnil; exact HCm).
    apply cmp_list_eq in HC2.
    destruct (r_first _ _ _ _ _ _ HR Ecb) as (csf & HLb & HKb & Eflv & HIb).
    assert (HA : isaut g n clsf gam).
    { eapply (gam_aut g n clsf order0 cells csf); try eassumption. rewrite <- Hval, <- Eflv. exact HC2. }
    destruct (HRc Ecb) as (lenB & lenF & permF & gsC & R1 & R2 & R3 & R4 & R5 & R6 & R7 & R8 & R9 & R10 & R11).
    assert (HL1 : 1 <= length (s_path st)).
    { destruct (s_path st) eqn:E; [exfalso; apply Ecb; apply Hnil; reflexivity|simpl; lia]. }
    assert (Htk : map (gfun gam) permF = verts lam).
    { apply (gam_takes g n Hn order permF (s_flInv st) gam R8 R6); [|exact HG].
      destruct (leafp_length _ _ HLp) as (_ & L2 & _). exact L2. }
    destruct (record_gen_fields n _ _ _ HRg) as (E1 & E2 & E3 & E4 & E5 & E6 & E7 & E8).
    cbn [bump s_ps s_path s_choices s_skip s_cb s_cbPerm s_cbPath s_flPath] in E1, E2, E3, E4, E5, E6, E7, E8.
    destruct (back_jump_cases _ _ _ HBj) as (keep & ps' & HK & HDg & ->).
    rewrite E2, E8 in HK. rewrite E2, E1 in HDg.
    destruct (h1_sound anc (s_path st) (s_choices st) (s_cb st) (s_flPath st) lenF permF gam keep lam
                HS HW HL1 Hwalk Htl R2 (isaut_autf g n clsf gam HA) Htk) as [Fx Hdom]; [|exact HK|].
    { change (verts lam) with order. rewrite <- Ecert. apply cmp_lt_cle. exact HCm. }
    destruct (h1_keep_spec _ _ _ HK HL1) as (Hkeep & _ & _).
    cbn [set_stack set_ps s_path]. rewrite E2, firstn_length. replace (Nat.min keep (length (s_path st))) with keep by lia.
    destruct (record_gen_cases _ _ _ _ HRg) as (d' & b' & HO' & Hcase).
    assert (Egens : forall gm, In gm (s_gens st1) -> In gm (s_gens st) \/ Fixall anc keep gm).
    { intros gm Hgm. destruct Hcase as [(_ & _ & ->)|(_ & ->)]; cbn in Hgm; [|left; exact Hgm].
      apply in_app_or in Hgm. destruct Hgm as [Hgm|[<-|[]]]; [left; exact Hgm|right; exact Fx]. }
    assert (Efields : s_cbInv st1 = s_cbInv st /\ s_fl st1 = s_fl st /\ s_flInv st1 = s_flInv st /\ s_cbOrb st1 = s_cbOrb st).
    { destruct Hcase as [(_ & _ & ->)|(_ & ->)]; repeat split. }
    destruct Efields as (E9 & E10 & E11 & E12).
    split; [|split; [|split]].
    + set (st3 := set_stack (set_ps st1 ps') (firstn keep (s_path st)) (firstn keep (s_choices st1))).
      replace (ltop (firstn keep (s_path st))) with (ltop (s_path st3)) by reflexivity.
      apply (leaf_jump anc st st3 keep HPi Hkeep); try reflexivity; try assumption.
      intros gsC0 HOC. exists gsC0. split; [cbn [st3 set_stack set_ps s_cbOrb]; rewrite E12; exact HOC|]. intros gm Hgm. left. exact Hgm.
    + intros P' HP'. cbn [set_stack set_ps s_skip s_ps]. rewrite E4, Hsk. left.
      apply (deage_n_spl g n clsf order0 root Hn (length (s_path st) - keep) anc (s_path st) (s_choices st) (s_ps st) ps' HS HC HSpl ltac:(lia) HDg).
      replace (length (s_path st) - (length (s_path st) - keep)) with keep by lia. exact HP'.
    + unfold plens. cbn [set_stack set_ps s_cbPath s_flPath]. rewrite E7, E8. exact Hpl.
    + intros E. apply (f_equal (@length nat)) in E. cbn [set_stack set_ps s_path] in E. rewrite firstn_length in E. simpl in E. lia.
  - (* any other leaf *)
    assert (Ecb : s_cb st <> []) by (eapply cmp_lt_nonnil; exact HCm).
    assert (HL1 : 1 <= length (s_path st)).
    { destruct (s_path st) eqn:E; [exfalso; apply Ecb; apply Hnil; reflexivity|simpl; lia]. }
    cbn [bump s_path]. rewrite firstn_same_length by exact HLen.
    assert (Hdl : dom g n (s_cb st) lam).
    { apply dom_leaf; [exact Htl|]. change (verts lam) with order. rewrite <- Ecert. apply cmp_lt_cle. exact HCm. }
    split; [|split; [|split]].
    + replace anc with (firstn (length (s_path st)) anc) by (rewrite <- HLen; apply firstn_all).
      replace (ltop (s_path st)) with (ltop (s_path (bump st))) by reflexivity.
      apply (leaf_jump anc st (bump st) (length (s_path st)) HPi ltac:(lia)); try reflexivity.
      * cbn [bump s_path]. symmetry. apply firstn_all.
      * intros P Q HP HQ.
        assert (Ep : s_path st = firstn (length (s_path st) - 1) (s_path st) ++ [nth (length (s_path st) - 1) (s_path st) 0]).
        { rewrite <- firstn_S_nth by lia. replace (S (length (s_path st) - 1)) with (length (s_path st)) by lia.
          symmetry. apply firstn_all. }
        rewrite Ep in Hwalk. rewrite (walk_snoc_inv g root _ _ _ _ (HW _ P HP) Hwalk) in HQ. inversion HQ; subst Q. exact Hdl.
      * intros gm Hgm. left. exact Hgm.
      * intros gsC0 HOC. exists gsC0. split; [exact HOC|]. intros gm Hgm. left. exact Hgm.
    + intros P HP. cbn [bump s_skip s_ps]. rewrite Hsk. left. apply HSpl. exact HP.
    + exact Hpl.
    + intros E. rewrite E in HL1. simpl in HL1. lia.
Qed.

End VCP4.
