(* Canon/SearchPrune.v — the facts behind the two automorphism heuristics: generators as functions,
   inverses, transport of domination between the children of a node that an automorphism group
   permutes, the meaning of a positive answer of hasEarlierOrbitMate, and the resolution of the
   children of a node once all of them have been dismissed. *)
From Coq Require Import List Arith Bool ZArith Lia Permutation Sorted.
From Mamba Require Import Canon.Perm Canon.Iso Canon.Model Canon.Refine Canon.Sorted Canon.Tree Canon.Fuel
  Disjoint.Model Disjoint.Proofs Canon.SearchModel Canon.SearchCells Canon.SearchTarget Canon.SearchDeage
  Canon.SearchRefine Canon.SearchValue Canon.SearchExpand Canon.SearchCert Canon.SearchOrder Canon.SearchEquiv
  Canon.SearchWalk Canon.SearchInvV.
Import ListNotations.
Open Scope nat_scope.

Section Prune.
Variable g : graph.
Variable n : nat.

(* ---------------------------------------------------------------- generators as functions *)

Definition gfun (gam : list nat) (u : nat) : nat := nth u gam 0.

Lemma map_gfun_seq : forall gam, length gam = n -> map (gfun gam) (seq 0 n) = gam.
Proof. intros gam H. unfold gfun. rewrite <- H. apply map_nth_seq. Qed.

Lemma isaut_autf : forall clsf gam, isaut g n clsf gam -> autf g g n (gfun gam).
Proof.
  intros clsf gam (HP & HA & _). split; [exact HA|].
  rewrite map_gfun_seq; [exact HP|]. rewrite (Permutation_length HP). apply seq_length.
Qed.

(* the inverse of an isomorphism given as a function *)
Definition finv (f : nat -> nat) (u : nat) : nat := index_of u (map f (seq 0 n)).

Lemma finv_spec : forall f, autf g g n f -> forall u, u < n -> finv f (f u) = u /\ f (finv f u) = u /\ finv f u < n.
Proof.
  intros f [Hadj HP] u Hu.
  assert (Hnd : NoDup (map f (seq 0 n))) by (apply (Permutation_NoDup (Permutation_sym HP)), seq_NoDup).
  assert (HL : length (map f (seq 0 n)) = n) by (rewrite map_length; apply seq_length).
  unfold finv. split; [|split].
  - replace (f u) with (nth u (map f (seq 0 n)) 0).
    + apply index_of_nth; [exact Hnd|lia].
    + rewrite (nth_indep _ 0 (f 0)) by lia. rewrite map_nth, seq_nth by lia. reflexivity.
  - assert (Hin : In u (map f (seq 0 n))) by (apply (Permutation_in _ (Permutation_sym HP)); apply in_seq; lia).
    pose proof (nth_index_of u _ 0 Hin) as E. pose proof (index_of_lt u _ Hin) as HLt. rewrite HL in HLt.
    rewrite (nth_indep _ 0 (f 0)) in E by lia. rewrite map_nth, seq_nth in E by lia. exact E.
  - assert (Hin : In u (map f (seq 0 n))) by (apply (Permutation_in _ (Permutation_sym HP)); apply in_seq; lia).
    pose proof (index_of_lt u _ Hin) as HLt. rewrite HL in HLt. exact HLt.
Qed.

Lemma autf_inv : forall f, autf g g n f -> autf g g n (finv f).
Proof.
  intros f Hf. pose proof Hf as [Hadj HP]. split.
  - intros u v Hu Hv. destruct (finv_spec f Hf u Hu) as (_ & E1 & L1). destruct (finv_spec f Hf v Hv) as (_ & E2 & L2).
    rewrite <- (Hadj (finv f u) (finv f v) L1 L2), E1, E2. reflexivity.
  - apply NoDup_Permutation_bis.
    + apply NoDup_map_inj_in; [|apply seq_NoDup]. intros a b Ha Hb E. apply in_seq in Ha. apply in_seq in Hb.
      destruct (finv_spec f Hf a ltac:(lia)) as (_ & E1 & _). destruct (finv_spec f Hf b ltac:(lia)) as (_ & E2 & _).
      rewrite <- E1, <- E2, E. reflexivity.
    + rewrite map_length. lia.
    + intros x Hx. apply in_map_iff in Hx. destruct Hx as (u & <- & Hu). apply in_seq in Hu.
      apply in_seq. destruct (finv_spec f Hf u ltac:(lia)) as (_ & _ & L). lia.
Qed.

Lemma sim_inv : forall f P, autf g g n f -> incl (verts P) (seq 0 n) -> sim f P P -> sim (finv f) P P.
Proof.
  intros f P Hf Hinc HS.
  assert (G : forall (Q1 Q2 : part), Forall2 (csim f) Q1 Q2 -> incl (verts Q1) (seq 0 n) -> Forall2 (csim (finv f)) Q2 Q1).
  { intros Q1 Q2 H. induction H as [|c c' Q1 Q2 [Hfl Hc] _ IH]; intros Hi; [constructor|].
    rewrite verts_cons in Hi. constructor.
    - split; [symmetry; exact Hfl|]. eapply perm_trans; [apply Permutation_map; apply Permutation_sym; exact Hc|].
      rewrite map_map. rewrite (map_ext_in _ (fun x => x)); [rewrite map_id; apply Permutation_refl|].
      intros u Hu. assert (Hun : In u (seq 0 n)) by (apply Hi; apply in_or_app; left; exact Hu). apply in_seq in Hun.
      apply (finv_spec f Hf u). lia.
    - apply IH. intros u Hu. apply Hi. apply in_or_app. right. exact Hu. }
  apply G; assumption.
Qed.

(* ---------------------------------------------------------------- transport between children *)

Lemma child_verts : forall P j Q, child g P j = Some Q -> Permutation (verts P) (seq 0 n) -> Permutation (verts Q) (seq 0 n).
Proof.
  intros P j Q H HP. eapply perm_trans; [|exact HP]. apply (rdesc_verts g); [eapply child_rdesc; exact H|].
  apply (Permutation_NoDup (Permutation_sym HP)), seq_NoDup.
Qed.

Lemma dom_transfer : forall f P b c a j j' x Q Q' cb, autf g g n f -> sim f P P -> Permutation (verts P) (seq 0 n) ->
  target P = Some (b, c, a) -> nth_error c j = Some x -> nth_error c j' = Some (f x) ->
  child g P j = Some Q -> child g P j' = Some Q' -> dom g n cb Q' -> dom g n cb Q.
Proof.
  intros f P b c a j j' x Q Q' cb Hf HS HP HT Hx Hfx HC HC' HD.
  destruct (child_sim g n f P j j' x Q Hf HS HP b c a HT Hx Hfx HC) as (Q2 & E2 & HS2).
  rewrite HC' in E2. inversion E2; subst Q2.
  eapply (sim_dom g n f Q Q' cb Hf HS2); [eapply child_verts; eassumption|exact HD].
Qed.

(* ---------------------------------------------------------------- hasEarlierOrbitMate *)

Lemma find_conn : forall ds ps x d r, Rep n ds ps -> x < n -> find ds x = Some (d, r) -> Rep n d ps /\ r < n /\ conn n ps x r.
Proof.
  intros ds ps x d r HR Hx HF. pose proof HR as (W & L & S).
  destruct (find_spec ds x W ltac:(lia)) as (d' & r' & F' & Hreach & Heq). rewrite HF in F'. inversion F'; subst d' r'.
  split; [eapply find_Rep; eassumption|].
  destruct (reaches_root _ _ _ Hreach) as [Hr _]. split; [lia|].
  apply S; [exact Hx|lia|]. apply same_root. exact Hreach.
Qed.

Lemma mate_loop_true : forall earlier ds r d ps, Rep n ds ps -> (forall u, In u earlier -> u < n) -> r < n ->
  mate_loop ds earlier r = Some (d, true) -> exists u, In u earlier /\ conn n ps u r.
Proof.
  induction earlier as [|u earlier IH]; intros ds r d ps HR HE Hr H; simpl in H; [discriminate|].
  destruct (find ds u) as [[d1 ru]|] eqn:EF; [|discriminate].
  destruct (find_conn _ _ _ _ _ HR (HE u (or_introl eq_refl)) EF) as (HR1 & Hru & HC).
  destruct (ru =? r) eqn:E.
  - apply Nat.eqb_eq in E. subst ru. exists u. split; [left; reflexivity|exact HC].
  - destruct (IH d1 r d ps HR1 ltac:(intros; apply HE; right; assumption) Hr H) as (u' & Hu' & HC').
    exists u'. split; [right; exact Hu'|exact HC'].
Qed.

Lemma has_earlier_mate_true : forall earlier ds v d ps, Rep n ds ps -> v < n -> (forall u, In u earlier -> u < n) ->
  has_earlier_mate ds earlier v = Some (d, true) -> exists u, In u earlier /\ conn n ps v u.
Proof.
  intros earlier ds v d ps HR Hv HE H. unfold has_earlier_mate in H.
  destruct (find ds v) as [[d1 r]|] eqn:EF; [|discriminate].
  destruct (find_conn _ _ _ _ _ HR Hv EF) as (HR1 & Hr & HC).
  destruct (mate_loop_true earlier d1 r d ps HR1 HE Hr H) as (u & Hu & HCu).
  exists u. split; [exact Hu|]. eapply c_trans; [exact HC|apply c_sym; exact HCu].
Qed.

End Prune.
