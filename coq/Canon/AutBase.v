(* C02 — permutations of 0..n-1 as lists (the Go representation: a []int of length n whose entry
   i is the image of i), composition, inverse, identity and their group laws.

   Canon/Perm.v and Canon/Iso.v of the C01 area did not exist when this file was written; this
   file is self-contained (stdlib only) and is used by the C02 files only. *)
From Coq Require Import List Arith Lia Bool.
From Mamba Require Export Canon.AutModel.
Import ListNotations.
Open Scope nat_scope.

Definition is_perm (n : nat) (p : perm) : Prop :=
  length p = n /\ NoDup p /\ Forall (fun x => x < n) p.

Lemma nth_dflt (l : list nat) i d d' : i < length l -> nth i l d = nth i l d'.
Proof. apply nth_indep. Qed.

(* ---------------------------------------------------------------- booleans *)
Lemma memb_In x l : memb x l = true <-> In x l.
Proof.
  induction l as [|y t IH]; simpl; [split; [discriminate|tauto]|].
  rewrite orb_true_iff, Nat.eqb_eq, IH. split; intros [H|H]; auto.
Qed.

Lemma nodupb_NoDup l : nodupb l = true <-> NoDup l.
Proof.
  induction l as [|x t IH]; simpl; [split; [constructor|reflexivity]|].
  rewrite andb_true_iff, negb_true_iff, IH. split.
  - intros [H1 H2]. constructor; auto. rewrite <- memb_In. congruence.
  - intros H. inversion H; subst. split; auto.
    destruct (memb x t) eqn:E; auto. apply memb_In in E. contradiction.
Qed.

Lemma is_permb_spec n p : is_permb n p = true <-> is_perm n p.
Proof.
  unfold is_permb, is_perm. rewrite !andb_true_iff, Nat.eqb_eq, nodupb_NoDup, forallb_forall, Forall_forall.
  split.
  - intros [[H1 H2] H3]. repeat split; auto. intros x Hx. apply Nat.ltb_lt; auto.
  - intros [H1 [H2 H3]]. repeat split; auto. intros x Hx. apply Nat.ltb_lt; auto.
Qed.

(* ---------------------------------------------------------------- application *)
Lemma app_lt n p i : is_perm n p -> i < n -> app p i < n.
Proof.
  intros (Hl & _ & Hb) Hi. unfold app. rewrite Forall_forall in Hb. apply Hb, nth_In. lia.
Qed.

Lemma app_inj n p i j : is_perm n p -> i < n -> j < n -> app p i = app p j -> i = j.
Proof.
  intros (Hl & Hn & _) Hi Hj E. unfold app in E.
  rewrite (nth_dflt p i i j) in E by lia.
  apply (proj1 (NoDup_nth p j) Hn); [lia|lia|exact E].
Qed.

Lemma app_In p i : i < length p -> In (app p i) p.
Proof. intros. unfold app. apply nth_In; auto. Qed.

Lemma perm_incl_seq n p : is_perm n p -> incl (seq 0 n) p.
Proof.
  intros (Hl & Hn & Hb). apply NoDup_length_incl; auto.
  - rewrite seq_length. lia.
  - intros x Hx. rewrite Forall_forall in Hb. apply in_seq. specialize (Hb x Hx). lia.
Qed.

Lemma app_surj n p y : is_perm n p -> y < n -> exists i, i < n /\ app p i = y.
Proof.
  intros Hp Hy. assert (In y p) as Hin by (apply (perm_incl_seq n p Hp), in_seq; lia).
  destruct (In_nth p y y Hin) as (i & Hi & E). destruct Hp as (Hl & _).
  exists i. split; [lia|]. unfold app. rewrite (nth_dflt p i i y) by lia. exact E.
Qed.

Lemma perm_ext n p q : length p = n -> length q = n ->
  (forall i, i < n -> app p i = app q i) -> p = q.
Proof.
  intros Hp Hq H. apply (nth_ext p q 0 0); [lia|].
  intros i Hi. specialize (H i ltac:(lia)). unfold app in H.
  rewrite (nth_dflt p i 0 i), (nth_dflt q i 0 i) by lia. exact H.
Qed.

(* ---------------------------------------------------------------- identity *)
Lemma app_idp n i : app (idp n) i = i.
Proof.
  unfold app, idp. destruct (Nat.lt_ge_cases i n).
  - rewrite seq_nth; auto.
  - apply nth_overflow. rewrite seq_length. lia.
Qed.

Lemma idp_perm n : is_perm n (idp n).
Proof.
  unfold idp. split; [apply seq_length|]. split; [apply seq_NoDup|].
  apply Forall_forall. intros x Hx. apply in_seq in Hx. lia.
Qed.

(* ---------------------------------------------------------------- composition *)
Lemma compose_length p q : length (compose p q) = length q.
Proof. apply map_length. Qed.

Lemma app_compose p q i : i < length q -> app (compose p q) i = app p (app q i).
Proof.
  intros Hi. unfold compose, app at 1.
  rewrite (nth_dflt _ i i (app p i)) by (rewrite map_length; lia).
  rewrite map_nth. reflexivity.
Qed.

Lemma map_app_NoDup n p q : is_perm n p -> NoDup q -> (forall x, In x q -> x < n) ->
  NoDup (map (app p) q).
Proof.
  intros Hp Hn Hb. induction q as [|x t IH]; simpl; [constructor|].
  inversion Hn; subst. constructor.
  - rewrite in_map_iff. intros (y & E & Hy).
    apply (app_inj n p y x Hp) in E; [subst; contradiction| |]; apply Hb; simpl; auto.
  - apply IH; auto. intros y Hy. apply Hb. simpl; auto.
Qed.

Lemma compose_perm n p q : is_perm n p -> is_perm n q -> is_perm n (compose p q).
Proof.
  intros Hp Hq. pose proof Hq as (Hl & Hn & Hb). rewrite Forall_forall in Hb.
  split; [rewrite compose_length; auto|]. split.
  - apply (map_app_NoDup n); auto.
  - apply Forall_forall. intros x Hx. unfold compose in Hx. apply in_map_iff in Hx.
    destruct Hx as (y & <- & Hy). apply (app_lt n p); auto.
Qed.

Lemma compose_assoc n p q r : is_perm n p -> is_perm n q -> is_perm n r ->
  compose p (compose q r) = compose (compose p q) r.
Proof.
  intros Hp Hq Hr. apply (perm_ext n).
  - rewrite !compose_length. apply Hr.
  - rewrite compose_length. apply Hr.
  - intros i Hi. destruct Hq as (Hlq & _), (proj1 Hr) .
    pose proof (app_lt (length r) r i Hr Hi) as Hri.
    rewrite app_compose by (rewrite compose_length; lia).
    rewrite app_compose by lia. rewrite app_compose by lia.
    rewrite app_compose by lia. reflexivity.
Qed.

Lemma compose_id_l n p : is_perm n p -> compose (idp n) p = p.
Proof.
  intros Hp. apply (perm_ext n); [rewrite compose_length; apply Hp|apply Hp|].
  intros i Hi. rewrite app_compose by (destruct Hp; lia). apply app_idp.
Qed.

Lemma compose_id_r n p : is_perm n p -> compose p (idp n) = p.
Proof.
  intros Hp. apply (perm_ext n); [rewrite compose_length; apply seq_length|apply Hp|].
  intros i Hi. rewrite app_compose by (unfold idp; rewrite seq_length; lia). rewrite app_idp. reflexivity.
Qed.

(* ---------------------------------------------------------------- inverse *)
Lemma index_nth y l : In y l -> index y l < length l /\ nth (index y l) l 0 = y.
Proof.
  induction l as [|x t IH]; simpl; [tauto|]. intros H.
  destruct (x =? y) eqn:E; [apply Nat.eqb_eq in E; split; [lia|auto]|].
  apply Nat.eqb_neq in E. destruct H as [H|H]; [contradiction|].
  destruct (IH H). split; [lia|auto].
Qed.

Lemma index_app n p i : is_perm n p -> i < n -> index (app p i) p = i.
Proof.
  intros Hp Hi. pose proof Hp as (Hl & _).
  destruct (index_nth (app p i) p) as (H1 & H2); [apply app_In; lia|].
  apply (app_inj n p); auto; [lia|]. unfold app at 1.
  rewrite (nth_dflt p _ _ 0) by lia. exact H2.
Qed.

Lemma inv_length p : length (inv p) = length p.
Proof. unfold inv. rewrite map_length, seq_length. reflexivity. Qed.

Lemma app_inv p y : y < length p -> app (inv p) y = index y p.
Proof.
  intros Hy. unfold inv, app.
  rewrite (nth_dflt _ y y (index y p)) by (rewrite map_length, seq_length; lia).
  rewrite (map_nth (fun y => index y p)). rewrite seq_nth by lia. reflexivity.
Qed.

Lemma app_inv_l n p i : is_perm n p -> i < n -> app (inv p) (app p i) = i.
Proof.
  intros Hp Hi. rewrite app_inv by (pose proof (app_lt n p i Hp Hi); destruct Hp; lia).
  apply (index_app n); auto.
Qed.

Lemma app_inv_r n p y : is_perm n p -> y < n -> app p (app (inv p) y) = y.
Proof.
  intros Hp Hy. destruct (app_surj n p y Hp Hy) as (i & Hi & <-).
  rewrite (app_inv_l n); auto.
Qed.

Lemma inv_lt n p y : is_perm n p -> y < n -> app (inv p) y < n.
Proof.
  intros Hp Hy. destruct (app_surj n p y Hp Hy) as (i & Hi & <-).
  rewrite (app_inv_l n); auto.
Qed.

Lemma inv_perm n p : is_perm n p -> is_perm n (inv p).
Proof.
  intros Hp. pose proof Hp as (Hl & Hn & Hb). split; [rewrite inv_length; auto|]. split.
  - apply NoDup_nth with (d := 0). rewrite inv_length. intros i j Hi Hj E.
    assert (app (inv p) i = app (inv p) j) as E'.
    { unfold app. rewrite (nth_dflt _ i i 0), (nth_dflt _ j j 0) by (rewrite inv_length; lia). exact E. }
    rewrite <- (app_inv_r n p i), <- (app_inv_r n p j) by (auto; lia). rewrite E'. reflexivity.
  - apply Forall_forall. intros x Hx. destruct (In_nth _ _ 0 Hx) as (i & Hi & <-).
    rewrite inv_length in Hi. rewrite (nth_dflt _ i 0 i) by (rewrite inv_length; lia).
    apply (inv_lt n p i); auto; lia.
Qed.

Lemma compose_inv_l n p : is_perm n p -> compose (inv p) p = idp n.
Proof.
  intros Hp. apply (perm_ext n); [rewrite compose_length; apply Hp|apply seq_length|].
  intros i Hi. rewrite app_compose by (destruct Hp; lia). rewrite app_idp. apply (app_inv_l n); auto.
Qed.

Lemma compose_inv_r n p : is_perm n p -> compose p (inv p) = idp n.
Proof.
  intros Hp. apply (perm_ext n); [rewrite compose_length, inv_length; apply Hp|apply seq_length|].
  intros i Hi. rewrite app_compose by (rewrite inv_length; destruct Hp; lia).
  rewrite app_idp. apply (app_inv_r n); auto.
Qed.
