(* Canon/SearchModel.v — definitions only.

   Executable model of the WHOLE of CanonicalIsomorphAllocated (graph/canonical.go) as it is
   written: the pruned depth-first search over the individualisation-refinement tree with the
   explicit stacks path/choices, the first-leaf and current-best records, Heuristic 1 (back-jump
   after an automorphism), Heuristic 2 (orbit pruning through the two union-find arrays), the
   partial-certificate cut-off of expandValue, deage, the generators and the m == 0 shortcut.
   Run with a fresh CanonicalStorage (NewStorage: zero-filled slices, disjoint.New) and the zero
   CanonicalOptions, on the partition built by NewOrderedPartition — i.e. what
   CanonicalIsomorphFull(g, vertexClasses) executes.

   Go state                         model
   op.order, op.binDividers         [p_cells]: the list of bins, each with its vertices in the order
                                    they have in op.order; dividers = running sums of the lengths
   op.binAges                       the age stored with each bin (age of the divider that ENDS it)
   op.binsToCheck                   the flag stored with each bin (as in Canon/Model.v).  splitBin
                                    does not shift the indices of binsToCheck; it is only ever
                                    called when binsToCheck is empty (after a complete refinement
                                    or after deage, which empties it), where flags = indices.
   op.inCell                        derived ([in_cell]: index of the bin containing v); the Go code
                                    keeps inCell equal to this after every update
   op.value, op.age, op.singletonPrefixLength     [p_value], [p_age] (Z), [p_spl]
   path, choices                    lists in Go order (append at the end)
   currentBest, firstLeaf, *Path, *Perm, *PermInv   lists with the semantics of Go's copy()
                                    (stale tail entries are kept, see [copy_into])
   currentBestOrbits, firstLeafOrbits   [dset] of Disjoint/Model.v with [find]/[union]
                                    (FindBuffered/UnionBuffered), path compression included
   generators                       list in order of discovery; cap(generators) = n-1
   scratch space (dws, nbs, timesSeen, ...)   not modelled (fully overwritten before use)

   A Go panic is [Panic]: slicing currentBest/firstLeaf beyond their capacity m, an index out of
   range on order/choices/paths/PermInv, more than n-1 generators, a position outside every
   bin.  The main loop has explicit fuel ([Fuel] = out of fuel, distinct from every result);
   stepLoop and jLoop are structurally recursive. *)
From Coq Require Import List Arith Bool ZArith.
From Mamba Require Import Canon.Perm Canon.Iso Canon.Model Disjoint.Model Canon.AutModel.
Import ListNotations.
Open Scope nat_scope.

Inductive res (A : Type) : Type :=
| Ok (a : A)
| Panic
| Fuel.
Arguments Ok {A} a.
Arguments Panic {A}.
Arguments Fuel {A}.

Definition bind {A B : Type} (x : res A) (f : A -> res B) : res B :=
  match x with Ok a => f a | Panic => Panic | Fuel => Fuel end.
Notation "'do' x <- e ; k" := (bind e (fun x => k)) (at level 200, x pattern, e at level 100, k at level 200).

Definition of_opt {A : Type} (o : option A) : res A :=
  match o with Some a => Ok a | None => Panic end.

(* ---------------------------------------------------------------- slices *)

(* copy(dst, src): the first min(len dst, len src) entries of dst are overwritten *)
Definition copy_into {A : Type} (dst src : list A) : list A :=
  firstn (length dst) src ++ skipn (length src) dst.

(* ints.Compare *)
Fixpoint cmp_list (a b : list nat) : comparison :=
  match a, b with
  | [], [] => Eq
  | [], _ :: _ => Lt
  | _ :: _, [] => Gt
  | x :: a', y :: b' => match Nat.compare x y with Eq => cmp_list a' b' | c => c end
  end.

Definition list_eqb (a b : list nat) : bool :=
  match cmp_list a b with Eq => true | _ => false end.

(* ints.HasPrefix(s, p) *)
Definition has_prefix (s p : list nat) : bool :=
  (length p <=? length s) && list_eqb (firstn (length p) s) p.

Fixpoint last_opt {A : Type} (l : list A) : option A :=
  match l with [] => None | [x] => Some x | _ :: r => last_opt r end.

Definition set_last {A : Type} (l : list A) (v : A) : list A :=
  match l with [] => [] | _ => removelast l ++ [v] end.

(* a[i] = v with bounds check *)
Definition upd_chk (l : list nat) (i v : nat) : option (list nat) :=
  if i <? length l then Some (Disjoint.Model.upd l i v) else None.

(* ---------------------------------------------------------------- the ordered partition *)

Definition acell := (Z * cell)%type.          (* age of the closing divider, (in binsToCheck, vertices) *)
Definition cage (c : acell) : Z := fst c.
Definition cflag (c : acell) : bool := fst (snd c).
Definition cverts (c : acell) : list nat := snd (snd c).

Record pstate := mkP { p_cells : list acell; p_age : Z; p_value : list nat; p_spl : nat }.

Definition erase (cs : list acell) : part := map snd cs.
Definition order_of (cs : list acell) : list nat := verts (erase cs).

(* op.inCell[v] *)
Fixpoint in_cell (cs : list acell) (v : nat) : nat :=
  match cs with
  | [] => 0
  | c :: r => if Canon.Perm.memb v (cverts c) then 0 else S (in_cell r v)
  end.

(* the entries appended to op.value for the singleton u at bin/position j, sorted *)
Definition entries (g : graph) (cs : list acell) (n j u : nat) : list nat :=
  isort (map (fun v => (j * (j - 1)) / 2 + in_cell cs v)
             (filter (fun v => adjb g u v && (in_cell cs v <? j)) (seq 0 n))).

Inductive ev : Type :=
| EvPanic
| EvWorse (value : list nat) (spl : nat)      (* returned true; singletonPrefixLength = j + 1 (commit a4bdb37) *)
| EvOk (value : list nat) (spl : nat).

(* expandValue: k = number of iterations left, j = loop variable.  m = cap(currentBest) =
   cap(firstLeaf). *)
Fixpoint expand_loop (k : nat) (g : graph) (cs : list acell) (n m : nat) (cb fl value : list nat)
         (j : nat) : ev :=
  match k with
  | 0 => EvOk value n
  | S k' =>
      match nth_error cs j with
      | None => EvPanic                                   (* op.binDividers[j] *)
      | Some c =>
          if length (cverts c) =? 1 then
            match nth_error (order_of cs) j with
            | None => EvPanic                             (* op.order[j] *)
            | Some u =>
                let value' := value ++ entries g cs n j u in
                match cb with
                | [] => expand_loop k' g cs n m cb fl value' (S j)
                | _ :: _ =>
                    if m <? length value' then EvPanic    (* currentBest[:len(op.value)] *)
                    else
                      match cmp_list value' (firstn (length value') cb) with
                      | Lt =>
                          match cmp_list value' (firstn (length value') fl) with
                          | Eq => expand_loop k' g cs n m cb fl value' (S j)
                          | _ => EvWorse value' (S j)
                          end
                      | _ => expand_loop k' g cs n m cb fl value' (S j)
                      end
                end
            end
          else EvOk value j
      end
  end.

Definition expand_value (g : graph) (cs : list acell) (n m : nat) (cb fl value : list nat)
           (spl : nat) : ev :=
  expand_loop (n - spl) g cs n m cb fl value spl.

(* the bin containing position i: (bins before, the bin, offset inside it, bins after) *)
Fixpoint locate (cs : list acell) (i : nat) : option (list acell * acell * nat * list acell) :=
  match cs with
  | [] => None
  | c :: r =>
      if i <? length (cverts c) then Some ([], c, i, r)
      else match locate r (i - length (cverts c)) with
           | Some (b, c', k, a) => Some (c :: b, c', k, a)
           | None => None
           end
  end.

(* splitBin(i): returns (worse, new state) *)
Definition split_bin (g : graph) (n m : nat) (cb fl : list nat) (ps : pstate) (i : nat)
  : res (bool * pstate) :=
  let age' := (p_age ps + 1)%Z in
  match locate (p_cells ps) i with
  | None => Panic
  | Some (b, c, k, a) =>
      match nth_error (cverts c) k with
      | None => Panic
      | Some x =>
          let rest := firstn k (cverts c) ++ skipn (S k) (cverts c) in
          let cs' := b ++ (age', (true, [x])) :: (cage c, (true, rest)) :: a in
          if length b =? p_spl ps then
            match expand_value g cs' n m cb fl (p_value ps) (p_spl ps) with
            | EvPanic => Panic
            | EvWorse v s => Ok (true, mkP cs' age' v s)
            | EvOk v s => Ok (false, mkP cs' age' v s)
            end
          else Ok (false, mkP cs' age' (p_value ps) (p_spl ps))
      end
  end.

(* deage: drop trailing entries >= maxPos of op.value *)
Fixpoint drop_while (f : nat -> bool) (l : list nat) : list nat :=
  match l with
  | [] => []
  | x :: r => if f x then drop_while f r else l
  end.
Definition strip_ge (maxPos : nat) (v : list nat) : list nat :=
  rev (drop_while (fun x => maxPos <=? x) (rev v)).

(* the loop of deage over the bins: [pend] = vertices of the bins whose divider has been dropped
   since the last kept one (None: no divider dropped), [out] = kept bins, reversed *)
Fixpoint deage_loop (age : Z) (cs : list acell) (pend : option (list nat)) (out : list acell)
         (spl : nat) (value : list nat) : list acell * option (list nat) * nat * list nat :=
  match cs with
  | [] => (rev out, pend, spl, value)
  | c :: r =>
      if Z.eqb (cage c) age then
        deage_loop age r (Some (match pend with Some vs => vs | None => [] end ++ cverts c)) out spl value
      else
        match pend with
        | None => deage_loop age r None ((cage c, (false, cverts c)) :: out) spl value
        | Some vs =>
            let j := length out in
            let sv := if j <? spl then (j, strip_ge (((j - 1) * j) / 2) value) else (spl, value) in
            deage_loop age r None ((cage c, (false, isort (vs ++ cverts c))) :: out) (fst sv) (snd sv)
        end
  end.

Definition deage (ps : pstate) : res pstate :=
  match deage_loop (p_age ps) (p_cells ps) None [] (p_spl ps) (p_value ps) with
  | (cs, Some (_ :: _), _, _) => Panic        (* the last divider dropped: inCell loop runs off binDividers *)
  | (cs, _, spl, value) => Ok (mkP cs (p_age ps - 1)%Z value spl)
  end.

Fixpoint deage_n (k : nat) (ps : pstate) : res pstate :=
  match k with
  | 0 => Ok ps
  | S k' => do ps' <- deage ps; deage_n k' ps'
  end.

(* ---------------------------------------------------------------- refinement with the certificate *)

Fixpoint pick_a (P : list acell) : option (list acell * list nat) :=
  match P with
  | [] => None
  | c :: r =>
      match pick_a r with
      | Some (r', w) => Some (c :: r', w)
      | None => if cflag c then Some ((cage c, (false, cverts c)) :: r, cverts c) else None
      end
  end.

(* the new dividers get the current age, the old divider (end of the last fragment) keeps its own *)
Fixpoint with_ages (anew aold : Z) (frs : list cell) : list acell :=
  match frs with
  | [] => []
  | [f] => [(aold, f)]
  | f :: r => (anew, f) :: with_ages anew aold r
  end.

Inductive rr : Type := RrPanic | RrWorse (ps : pstate) | RrOk (ps : pstate).

(* one pass "for j := len(binDividers)-1; j >= 0; j--": [pre_rev] = bins 0..j reversed, [post] =
   the bins after j, already processed *)
Fixpoint round_loop (g : graph) (n m : nat) (cb fl : list nat) (w : list nat) (age : Z)
         (pre_rev post : list acell) (value : list nat) (spl : nat) : rr :=
  match pre_rev with
  | [] => RrOk (mkP post age value spl)
  | c :: pre' =>
      if uniform g w (cverts c) then round_loop g n m cb fl w age pre' (c :: post) value spl
      else
        let post' := with_ages age (cage c) (fragments g w (cverts c)) ++ post in
        if length pre' =? spl then
          match expand_value g (rev pre' ++ post') n m cb fl value spl with
          | EvPanic => RrPanic
          | EvWorse v s => RrWorse (mkP (rev pre' ++ post') age v s)
          | EvOk v s => round_loop g n m cb fl w age pre' post' v s
          end
        else round_loop g n m cb fl w age pre' post' value spl
  end.

(* equitableRefinementProcedure with the zero options: (worse, state) *)
Fixpoint refine_loop (k : nat) (g : graph) (n m : nat) (cb fl : list nat) (ps : pstate)
  : res (bool * pstate) :=
  match pick_a (p_cells ps) with
  | None => Ok (false, ps)
  | Some (P', w) =>
      match k with
      | 0 => Fuel
      | S k' =>
          match round_loop g n m cb fl w (p_age ps) (rev P') [] (p_value ps) (p_spl ps) with
          | RrPanic => Panic
          | RrWorse ps' => Ok (true, ps')
          | RrOk ps' => refine_loop k' g n m cb fl ps'
          end
      end
  end.

Definition refine_s (g : graph) (n m : nat) (cb fl : list nat) (ps : pstate) : res (bool * pstate) :=
  refine_loop (2 * length (order_of (p_cells ps)) + length (p_cells ps)) g n m cb fl ps.

(* ---------------------------------------------------------------- orbits and generators *)

(* tmp[i] = op.order[permInv[i]] for i < n *)
Fixpoint gamma_of (order inv : list nat) (is : list nat) : option (list nat) :=
  match is with
  | [] => Some []
  | i :: r =>
      match nth_error inv i with
      | None => None
      | Some k =>
          match nth_error order k, gamma_of order inv r with
          | Some v, Some t => Some (v :: t)
          | _, _ => None
          end
      end
  end.

(* for i := 0; i < n; i++ { if tmp := gam[i]; ds.Find(tmp) != ds.Find(i) { ds.Union(i, tmp); merges = true } } *)
Fixpoint orb_loop (is : list nat) (gam : list nat) (ds : dset) (merged : bool) : option (dset * bool) :=
  match is with
  | [] => Some (ds, merged)
  | i :: r =>
      match nth_error gam i with
      | None => None
      | Some t =>
          match find ds t with
          | None => None
          | Some (d1, rt) =>
              match find d1 i with
              | None => None
              | Some (d2, ri) =>
                  if rt =? ri then orb_loop r gam d2 merged
                  else match union d2 i t with
                       | None => None
                       | Some d3 => orb_loop r gam d3 true
                       end
              end
          end
      end
  end.

(* hasEarlierOrbitMate after r := orbits.Find(v) *)
Fixpoint mate_loop (ds : dset) (earlier : list nat) (r : nat) : option (dset * bool) :=
  match earlier with
  | [] => Some (ds, false)
  | u :: rest =>
      match find ds u with
      | None => None
      | Some (d1, ru) => if ru =? r then Some (d1, true) else mate_loop d1 rest r
      end
  end.

Definition has_earlier_mate (ds : dset) (earlier : list nat) (v : nat) : option (dset * bool) :=
  match find ds v with
  | None => None
  | Some (d1, r) => mate_loop d1 earlier r
  end.

(* Heuristic 1: number of path entries kept = index + 1 *)
Fixpoint first_diff (k i : nat) (path bp : list nat) : option (option nat) :=
  match k with
  | 0 => Some None
  | S k' =>
      match nth_error path i, nth_error bp i with
      | Some a, Some b => if a =? b then first_diff k' (S i) path bp else Some (Some i)
      | _, _ => None                                      (* index out of range *)
      end
  end.

Definition h1_keep (path bp : list nat) : option nat :=
  match first_diff (length path - 1) 0 path bp with
  | None => None
  | Some (Some i) => Some (S i)
  | Some None => Some (length path)
  end.

(* cbPermInv[order[i]] = i for every i *)
Fixpoint inv_into (arr : list nat) (order : list nat) (i : nat) : option (list nat) :=
  match order with
  | [] => Some arr
  | v :: r => match upd_chk arr v i with
              | None => None
              | Some arr' => inv_into arr' r (S i)
              end
  end.

(* ---------------------------------------------------------------- the search *)

Record sstate := mkS {
  s_ps : pstate;
  s_path : list nat; s_choices : list nat; s_count : nat;
  s_cb : list nat; s_cbPath : list nat; s_cbPerm : list nat; s_cbInv : list nat; s_cbOrb : dset;
  s_fl : list nat; s_flPath : list nat; s_flInv : list nat; s_flOrb : dset;
  s_gens : list (list nat);
  s_skip : bool }.

Definition set_ps (st : sstate) (ps : pstate) : sstate :=
  mkS ps (s_path st) (s_choices st) (s_count st) (s_cb st) (s_cbPath st) (s_cbPerm st) (s_cbInv st)
      (s_cbOrb st) (s_fl st) (s_flPath st) (s_flInv st) (s_flOrb st) (s_gens st) (s_skip st).
Definition set_stack (st : sstate) (path choices : list nat) : sstate :=
  mkS (s_ps st) path choices (s_count st) (s_cb st) (s_cbPath st) (s_cbPerm st) (s_cbInv st)
      (s_cbOrb st) (s_fl st) (s_flPath st) (s_flInv st) (s_flOrb st) (s_gens st) (s_skip st).
Definition set_skip (st : sstate) (b : bool) : sstate :=
  mkS (s_ps st) (s_path st) (s_choices st) (s_count st) (s_cb st) (s_cbPath st) (s_cbPerm st) (s_cbInv st)
      (s_cbOrb st) (s_fl st) (s_flPath st) (s_flInv st) (s_flOrb st) (s_gens st) b.
Definition set_cbOrb (st : sstate) (d : dset) : sstate :=
  mkS (s_ps st) (s_path st) (s_choices st) (s_count st) (s_cb st) (s_cbPath st) (s_cbPerm st) (s_cbInv st)
      d (s_fl st) (s_flPath st) (s_flInv st) (s_flOrb st) (s_gens st) (s_skip st).
Definition set_flOrb (st : sstate) (d : dset) : sstate :=
  mkS (s_ps st) (s_path st) (s_choices st) (s_count st) (s_cb st) (s_cbPath st) (s_cbPerm st) (s_cbInv st)
      (s_cbOrb st) (s_fl st) (s_flPath st) (s_flInv st) d (s_gens st) (s_skip st).
Definition set_gens (st : sstate) (gs : list (list nat)) : sstate :=
  mkS (s_ps st) (s_path st) (s_choices st) (s_count st) (s_cb st) (s_cbPath st) (s_cbPerm st) (s_cbInv st)
      (s_cbOrb st) (s_fl st) (s_flPath st) (s_flInv st) (s_flOrb st) gs (s_skip st).

Section Search.
Variable g : graph.
Variables n m : nat.

(* update firstLeafOrbits with gam, record gam when it merged something *)
Definition record_gen (st : sstate) (gam : list nat) : res sstate :=
  do r <- of_opt (orb_loop (seq 0 n) gam (s_flOrb st) false);
  let st1 := set_flOrb st (fst r) in
  if snd r then
    if n - 1 <? length (s_gens st) + 1 then Panic           (* generators[:len(generators)+1] *)
    else Ok (set_gens st1 (s_gens st ++ [gam]))
  else Ok st1.

(* Heuristic 1 against the path bp *)
Definition back_jump (st : sstate) (bp : list nat) : res sstate :=
  do keep <- of_opt (h1_keep (s_path st) bp);
  do ps' <- deage_n (length (s_path st) - keep) (s_ps st);
  Ok (set_stack (set_ps st ps') (firstn keep (s_path st)) (firstn keep (s_choices st))).

(* count++ *)
Definition bump (st : sstate) : sstate :=
  mkS (s_ps st) (s_path st) (s_choices st) (S (s_count st)) (s_cb st) (s_cbPath st) (s_cbPerm st)
      (s_cbInv st) (s_cbOrb st) (s_fl st) (s_flPath st) (s_flInv st) (s_flOrb st) (s_gens st) (s_skip st).

(* the leaf is the new best (st: count already incremented): currentBest*, and on the first
   leaf also firstLeaf*, are overwritten with the semantics of copy() *)
Definition new_best (st : sstate) (cbInv : list nat) : sstate :=
  let ps := s_ps st in
  let order := order_of (p_cells ps) in
  let cb := copy_into (firstn m (s_cb st ++ repeat 0 (m - length (s_cb st)))) (p_value ps) in
  let cbPath := copy_into (s_cbPath st) (s_path st) in
  let cbPerm := copy_into (s_cbPerm st) order in
  let cbOrb := new n in
  if s_count st =? 1 then
    mkS ps (s_path st) (s_choices st) (s_count st) cb cbPath cbPerm cbInv cbOrb
        (copy_into (s_fl st) (p_value ps)) (copy_into (s_flPath st) (s_path st))
        (copy_into (s_flInv st) cbInv) (copy_into (s_flOrb st) cbOrb)
        (s_gens st) (s_skip st)
  else
    mkS ps (s_path st) (s_choices st) (s_count st) cb cbPath cbPerm cbInv cbOrb
        (s_fl st) (s_flPath st) (s_flInv st) (s_flOrb st) (s_gens st) (s_skip st).

(* a leaf that is not worse: "if !worse && len(op.binDividers) == n" *)
Definition leaf_step (st : sstate) : res sstate :=
  let st0 := bump st in
  let ps := s_ps st0 in
  let order := order_of (p_cells ps) in
  match cmp_list (p_value ps) (s_cb st0) with
  | Gt =>
      do cbInv <- of_opt (inv_into (s_cbInv st0) order 0);
      Ok (new_best st0 cbInv)
  | Eq =>
      do gam <- of_opt (gamma_of order (s_cbInv st0) (seq 0 n));
      do r <- of_opt (orb_loop (seq 0 n) gam (s_cbOrb st0) false);
      do st1 <- record_gen (set_cbOrb st0 (fst r)) gam;
      back_jump st1 (s_cbPath st1)
  | Lt =>
      match cmp_list (p_value ps) (s_fl st0) with
      | Eq =>
          do gam <- of_opt (gamma_of order (s_flInv st0) (seq 0 n));
          do st1 <- record_gen st0 gam;
          back_jump st1 (s_flPath st1)
      | _ => Ok st0
      end
  end.

(* not a leaf, not worse: choose the first bin with more than one element *)
Fixpoint first_big (cs : list acell) (start : nat) : option (nat * nat) :=   (* (end of the bin, its size) *)
  match cs with
  | [] => None
  | c :: r =>
      let sz := length (cverts c) in
      if 1 <? sz then Some (start + sz, sz) else first_big r (start + sz)
  end.

Definition push_step (st : sstate) : sstate :=
  match first_big (p_cells (s_ps st)) 0 with
  | None => st
  | Some (e, sz) => set_skip (set_stack st (s_path st ++ [sz]) (s_choices st ++ [e])) true
  end.

Definition undo (st : sstate) : res sstate :=
  if s_skip st then Ok (set_skip st false)
  else do ps' <- deage (s_ps st); Ok (set_ps st ps').

(* Heuristic 2 for one of the two orbit arrays: (new array, skip this child?) *)
Definition h2 (count : nat) (lpath path : list nat) (ds : dset) (order : list nat) (pos j v : nat)
  : res (dset * bool) :=
  if (0 <? count) && has_prefix lpath (removelast path) then
    if pos <? j then Panic                                  (* op.order[choicePosition-j:...] *)
    else of_opt (has_earlier_mate ds (firstn j (skipn (pos - j) order)) v)
  else Ok (ds, false).

(* one iteration of jLoop with loop variable j: (state, stepped?); not stepped = "continue jLoop" *)
Definition jbody (j : nat) (st : sstate) : res (sstate * bool) :=
  do st1 <- undo st;
  match last_opt (s_choices st1) with
  | None => Panic
  | Some 0 => Panic                                     (* op.order[-1] *)
  | Some (S pos) =>
      let st2 := set_stack st1 (s_path st1) (set_last (s_choices st1) pos) in
      let order := order_of (p_cells (s_ps st2)) in
      do v <- of_opt (nth_error order pos);
      do r1 <- h2 (s_count st2) (s_flPath st2) (s_path st2) (s_flOrb st2) order pos j v;
      let st3 := set_flOrb st2 (fst r1) in
      if snd r1 then Ok (set_skip st3 true, false)
      else
        do r2 <- h2 (s_count st3) (s_cbPath st3) (s_path st3) (s_cbOrb st3) order pos j v;
        let st4 := set_cbOrb st3 (fst r2) in
        if snd r2 then Ok (set_skip st4 true, false)
        else
          do r3 <- split_bin g n m (s_cb st4) (s_fl st4) (s_ps st4) pos;
          let st5 := set_stack (set_ps st4 (snd r3)) (set_last (s_path st4) j) (s_choices st4) in
          Ok (st5, negb (fst r3))
  end.

(* jLoop: "for j := path[len(path)-1] - 1; j >= 0; j--"; jj = j + 1.  Result: (state, stepped?) *)
Fixpoint jloop (jj : nat) (st : sstate) : res (sstate * bool) :=
  match jj with
  | 0 => Ok (st, false)
  | S j =>
      do r <- jbody j st;
      if snd r then Ok r else jloop j (fst r)
  end.

Inductive stepres : Type :=
| Stepped (st : sstate)
| Done (perm : list nat) (orbits : dset) (gens : list (list nat)).

(* stepLoop; k bounds the number of iterations (each failed one pops the path) *)
Fixpoint steploop (k : nat) (st : sstate) : res stepres :=
  match last_opt (s_path st) with
  | None => Ok (Done (s_cbPerm st) (s_flOrb st) (s_gens st))
  | Some top =>
      match k with
      | 0 => Fuel
      | S k' =>
          do r <- jloop top st;
          if snd r then Ok (Stepped (fst r))
          else
            do st1 <- undo (fst r);
            steploop k' (set_stack st1 (removelast (s_path st1)) (removelast (s_choices st1)))
      end
  end.

(* the outer "for { ... }" *)
Fixpoint main_loop (fuel : nat) (st : sstate) (worse : bool) : res (list nat * dset * list (list nat)) :=
  match fuel with
  | 0 => Fuel
  | S f =>
      do st1 <- (if worse then Ok st
                 else if length (p_cells (s_ps st)) =? n then leaf_step st
                 else Ok (push_step st));
      do r <- steploop (S (length (s_path st1))) st1;
      match r with
      | Done p o gs => Ok (p, o, gs)
      | Stepped st2 =>
          do w <- refine_s g n m (s_cb st2) (s_fl st2) (s_ps st2);
          main_loop f (set_ps st2 (snd w)) (fst w)
      end
  end.

End Search.

(* ---------------------------------------------------------------- entry point *)

Definition num_edges (g : graph) : nat :=
  let n := length g in
  length (filter (fun p => adjb g (fst p) (snd p))
                 (flat_map (fun j => map (fun i => (i, j)) (seq 0 j)) (seq 0 n))).

(* NewOrderedPartition *)
Definition init_cells (n : nat) (cls : option (list (list nat))) : list acell :=
  map (fun c => (0%Z, c)) (match cls with None => init_part n | Some c => init_classes c end).

(* fresh storage: NewStorage(n, m) *)
Definition init_state (n m : nat) (ps : pstate) : sstate :=
  mkS ps [] [] 0 [] (repeat 0 n) (repeat 0 n) (repeat 0 n) (new n)
      (repeat 0 m) (repeat 0 n) (repeat 0 n) (new n) [] false.

(* CanonicalIsomorphFull(g, cls): (permutation, orbits array, generators) *)
Definition canon_search (fuel : nat) (g : graph) (cls : option (list (list nat)))
  : res (list nat * dset * list (list nat)) :=
  let n := length g in
  let m := num_edges g in
  if n =? 0 then Ok ([], [], [])
  else
    let cs := init_cells n cls in
    if m =? 0 then
      Ok (order_of cs, edgeless_ds (new n) (map cverts cs), edgeless_gens n (map cverts cs))
    else
      (* op.expandValue(neighbours, currentBest, firstLeaf): currentBest is empty *)
      match expand_value g cs n m [] (repeat 0 m) [] 0 with
      | EvPanic => Panic
      | EvWorse v s =>                                      (* the result is ignored by the caller *)
          do w <- refine_s g n m [] (repeat 0 m) (mkP cs 0%Z v s);
          main_loop g n m fuel (init_state n m (snd w)) (fst w)
      | EvOk v s =>
          do w <- refine_s g n m [] (repeat 0 m) (mkP cs 0%Z v s);
          main_loop g n m fuel (init_state n m (snd w)) (fst w)
      end.

(* what C01/C02 determine *)
Definition search_canon_graph (fuel : nat) (g : graph) (cls : option (list (list nat))) : res graph :=
  do r <- canon_search fuel g cls; Ok (relabel g (fst (fst r))).
