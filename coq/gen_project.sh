#!/bin/sh
# regenerate _CoqProject from the files on disk (Extract/ is compiled separately)
cd "$(dirname "$0")"
{ echo "-Q . Mamba"; echo "-arg -w -arg -deprecated,-notation-overridden"; find . -name '*.v' ! -path './Extract/*' | sed 's|^\./||' | LC_ALL=C sort; } > _CoqProject
coq_makefile -f _CoqProject -o Makefile >/dev/null
